(* C12, parser half: for every well-formed structured glob, glob_to_regex writes the expected regex
   text and Oniguruma's reading of that text (parse_bre) is the glob's meaning. *)
Require Import GlobEngine GlobBT GlobNFA Glob GlobSpec.
From Coq Require Import List Arith Bool Lia.
Import ListNotations.

(* ---- class names ---- *)
Lemma class_names_ok : forall k, k < 14 ->
  class_of (class_name k) class_names = Some k /\
  forallb (fun c => negb (c =? ch_colon) && negb (c =? ch_rb)) (class_name k) = true.
Proof.
  assert (H : forallb (fun k => match class_of (class_name k) class_names with Some k' => k' =? k | None => false end &&
                               forallb (fun c => negb (c =? ch_colon) && negb (c =? ch_rb)) (class_name k)) (seq 0 14) = true)
    by (vm_compute; reflexivity).
  intros k Hk. rewrite forallb_forall in H. specialize (H k). rewrite in_seq in H.
  assert (Hin : 0 <= k < 0 + 14) by lia. apply H in Hin. apply andb_true_iff in Hin as [H1 H2].
  split; [|exact H2].
  destruct (class_of _ _) as [k'|]; [|discriminate]. apply Nat.eqb_eq in H1. now subst.
Qed.

Lemma neqb_false a b : negb (a =? b) = true -> (a =? b) = false.
Proof. now destruct (a =? b). Qed.

Lemma plain_facts c : plain_in_bracket c = true ->
  (c =? ch_rb) = false /\ (c =? ch_lb) = false /\ (c =? ch_minus) = false /\ (c =? ch_bs) = false.
Proof.
  unfold plain_in_bracket. intros H. repeat (apply andb_true_iff in H as [H ?]). repeat split; now apply neqb_false.
Qed.

(* ---- the scanner (extract_bracket_expr's loop) on a well-formed body ---- *)
Lemma scan_plain f c s1 expr : (c =? ch_rb) = false -> (c =? ch_lb) = false ->
  scan_bracket (S f) (c :: s1) expr = scan_bracket f s1 (expr ++ [c]).
Proof. intros H1 H2. cbn [scan_bracket]. now rewrite H1, H2. Qed.

Lemma skipn_app_len {A} (a b : list A) : skipn (length a) (a ++ b) = b.
Proof. induction a; cbn; auto. Qed.
Lemma firstn_app_len {A} (a b : list A) : firstn (length a) (a ++ b) = a.
Proof. induction a; cbn; [reflexivity|]. now f_equal. Qed.

Lemma take_class_cons a b t acc :
  take_class (a :: b :: t) acc = if (a =? ch_colon) && (b =? ch_rb) then Some (acc, t) else take_class (b :: t) (acc ++ [a]).
Proof. reflexivity. Qed.

Lemma take_class_name : forall name acc tail, forallb (fun c => negb (c =? ch_colon) && negb (c =? ch_rb)) name = true ->
  take_class (name ++ ch_colon :: ch_rb :: tail) acc = Some (acc ++ name, tail).
Proof.
  induction name as [|a name IH]; intros acc tail H.
  - cbn [app take_class]. change ((ch_colon =? ch_colon) && (ch_rb =? ch_rb)) with true. cbv iota. now rewrite app_nil_r.
  - cbn [forallb] in H. apply andb_true_iff in H as [Ha Hn]. apply andb_true_iff in Ha as [Ha1 _].
    assert (E : exists b t', name ++ ch_colon :: ch_rb :: tail = b :: t') by (destruct name; cbn; eauto).
    destruct E as (b & t' & E). cbn [app]. rewrite E. rewrite take_class_cons. rewrite (neqb_false _ _ Ha1). cbn [andb].
    rewrite <- E. rewrite IH by assumption. now rewrite <- app_assoc.
Qed.

Lemma scan_class f k tail expr : k < 12 -> k <> 7 -> k <> 1 ->
  scan_bracket (S f) (show_bitem (BClass k) ++ tail) expr = scan_bracket f tail (expr ++ show_bitem (BClass k)).
Proof.
  intros Hk Hk7 Hk1. assert (Hk14 : k < 14) by lia. destruct (class_names_ok k Hk14) as (Hc & Hn).
  apply Nat.eqb_neq in Hk7. apply Nat.eqb_neq in Hk1.
  cbn [show_bitem]. set (name := class_name k) in *.
  change (([ch_lb; ch_colon] ++ name ++ [ch_colon; ch_rb]) ++ tail) with (ch_lb :: ch_colon :: (name ++ [ch_colon; ch_rb]) ++ tail).
  rewrite <- app_assoc. change ([ch_colon; ch_rb] ++ tail) with (ch_colon :: ch_rb :: tail). cbn [scan_bracket].
  change (ch_lb =? ch_rb) with false. change (ch_lb =? ch_lb) with true. cbv iota.
  change (ch_colon =? ch_colon) with true. cbv iota.
  rewrite take_class_name by exact Hn. cbn [app]. rewrite Hc.
  assert (H12 : (12 <=? k) = false) by (apply Nat.leb_gt; exact Hk). rewrite H12, Hk7, Hk1.
  f_equal. rewrite <- !app_assoc. reflexivity.
Qed.

Lemma show_bitem_len b : 1 <= length (show_bitem b).
Proof. destruct b; cbn; lia. Qed.

Lemma scan_body : forall items fuel expr rest, forallb wf_bitem items = true ->
  length (show_body items ++ ch_rb :: rest) < fuel ->
  scan_bracket fuel (show_body items ++ ch_rb :: rest) expr = Some (expr ++ show_body items ++ [ch_rb], rest).
Proof.
  induction items as [|b items IH]; intros fuel expr rest Hwf Hf.
  - cbn [show_body map concat app] in *. destruct fuel; [cbn in Hf; lia|]. cbn [scan_bracket]. now rewrite Nat.eqb_refl.
  - cbn [forallb] in Hwf. apply andb_true_iff in Hwf as [Hb Hwf].
    unfold show_body in *. cbn [map concat] in *. rewrite <- !app_assoc in *. rewrite app_length in Hf.
    destruct b as [c|lo hi|k]; cbn [wf_bitem] in Hb.
    + destruct (plain_facts c Hb) as (H1 & H2 & _). cbn [show_bitem app length] in *.
      destruct fuel; [lia|]. rewrite scan_plain by assumption. rewrite IH by (try assumption; lia).
      now rewrite <- app_assoc.
    + apply andb_true_iff in Hb as [Hb _]. apply andb_true_iff in Hb as [Hlo Hhi].
      destruct (plain_facts lo Hlo) as (L1 & L2 & _). destruct (plain_facts hi Hhi) as (H1 & H2 & _).
      cbn [show_bitem app length] in *.
      destruct fuel; [lia|]. rewrite scan_plain by assumption.
      destruct fuel; [lia|]. rewrite scan_plain by reflexivity.
      destruct fuel; [lia|]. rewrite scan_plain by assumption.
      rewrite IH by (try assumption; lia). now rewrite <- !app_assoc.
    + apply andb_true_iff in Hb as [Hb Hb1]. apply andb_true_iff in Hb as [Hb Hb7]. apply Nat.ltb_lt in Hb.
      apply negb_true_iff, Nat.eqb_neq in Hb7. apply negb_true_iff, Nat.eqb_neq in Hb1.
      destruct fuel; [lia|]. rewrite scan_class by assumption.
      pose proof (show_bitem_len (BClass k)). rewrite IH by (try assumption; lia). now rewrite <- !app_assoc.
Qed.

(* ---- Oniguruma's reading of the same body ---- *)
(* the first character of what follows an item is never "-" *)
Definition no_minus (tail : list nat) : Prop := match tail with m :: _ => (m =? ch_minus) = false | [] => True end.

Lemma item_head b : wf_bitem b = true ->
  exists c t, show_bitem b = c :: t /\ (c =? ch_rb) = false /\ (c =? ch_minus) = false.
Proof.
  destruct b as [c|lo hi|k]; cbn [wf_bitem show_bitem]; intros H.
  - destruct (plain_facts c H) as (H1 & _ & H3 & _). eauto.
  - apply andb_true_iff in H as [H _]. apply andb_true_iff in H as [H _]. destruct (plain_facts lo H) as (H1 & _ & H3 & _). eauto.
  - exists ch_lb. eexists. split; [reflexivity|]. split; reflexivity.
Qed.

Lemma body_no_minus items rest : forallb wf_bitem items = true -> no_minus (show_body items ++ ch_rb :: rest).
Proof.
  destruct items as [|b items]; intros H; [reflexivity|]. cbn [forallb] in H. apply andb_true_iff in H as [Hb _].
  destruct (item_head b Hb) as (c & t & E & _ & Hm). unfold show_body. cbn [map concat]. rewrite E. exact Hm.
Qed.

Lemma after_item {X} tail (a b : X) : no_minus tail ->
  match tail with m :: n :: _ => if (m =? ch_minus) && negb (n =? ch_rb) then a else b | _ => b end = b.
Proof. destruct tail as [|m [|n t]]; cbn; intros H; [reflexivity|reflexivity|]. now rewrite H. Qed.

Lemma cc_step b f first acc tail : wf_bitem b = true -> no_minus tail ->
  cc_items (S f) (show_bitem b ++ tail) first acc = cc_items f tail false (acc ++ [b]).
Proof.
  intros Hb Ht. destruct b as [c|lo hi|k]; cbn [wf_bitem] in Hb.
  - destruct (plain_facts c Hb) as (H1 & H2 & _). cbn [show_bitem app cc_items]. rewrite H1, H2. cbn [andb].
    destruct tail as [|m [|hi s2]]; try reflexivity. cbn in Ht. now rewrite Ht.
  - apply andb_true_iff in Hb as [Hb Hle]. apply andb_true_iff in Hb as [Hlo Hhi].
    destruct (plain_facts lo Hlo) as (L1 & L2 & _). destruct (plain_facts hi Hhi) as (H1 & H2 & _).
    cbn [show_bitem app cc_items]. rewrite L1, L2. cbn [andb].
    change (ch_minus =? ch_minus) with true. rewrite H1, H2. cbn [andb negb].
    apply Nat.leb_le in Hle. assert (Hlt : (hi <? lo) = false) by (apply Nat.ltb_ge; exact Hle). rewrite Hlt.
    apply after_item. exact Ht.
  - apply andb_true_iff in Hb as [Hb _]. apply andb_true_iff in Hb as [Hb _]. apply Nat.ltb_lt in Hb.
    assert (Hb14 : k < 14) by lia. destruct (class_names_ok k Hb14) as (Hc & Hn).
    cbn [show_bitem]. set (name := class_name k) in *.
    change (([ch_lb; ch_colon] ++ name ++ [ch_colon; ch_rb]) ++ tail) with (ch_lb :: ch_colon :: (name ++ [ch_colon; ch_rb]) ++ tail).
    rewrite <- app_assoc. change ([ch_colon; ch_rb] ++ tail) with (ch_colon :: ch_rb :: tail).
    cbn [cc_items tl]. change (ch_lb =? ch_rb) with false. change (ch_lb =? ch_lb) with true. change (ch_colon =? ch_colon) with true.
    cbn [andb]. rewrite take_class_name by exact Hn. cbn [app]. rewrite Hc. apply after_item. exact Ht.
Qed.

Lemma cc_body : forall items f acc rest, forallb wf_bitem items = true -> length items < f ->
  cc_items f (show_body items ++ ch_rb :: rest) false acc = CCOk false (acc ++ items) rest.
Proof.
  induction items as [|b items IH]; intros f acc rest Hwf Hf.
  - destruct f; [lia|]. cbn. now rewrite app_nil_r.
  - destruct f; [cbn in Hf; lia|]. cbn [forallb] in Hwf. apply andb_true_iff in Hwf as [Hb Hwf].
    unfold show_body. cbn [map concat]. rewrite <- app_assoc. fold (show_body items).
    rewrite cc_step by (try assumption; now apply body_no_minus).
    rewrite IH by (try assumption; cbn in Hf; lia). now rewrite <- app_assoc.
Qed.

Lemma body_len items : length items <= length (show_body items).
Proof.
  induction items as [|b items IH]; [cbn; lia|]. unfold show_body in *. cbn [map concat length]. rewrite app_length.
  pose proof (show_bitem_len b). lia.
Qed.

(* the whole bracket, as Oniguruma reads it after "[" *)
Lemma cc_parse_bracket neg items rest : wf_item (GBr neg items) = true ->
  cc_parse ((if neg then [ch_caret] else []) ++ show_body items ++ ch_rb :: rest) = CCOk neg items rest.
Proof.
  cbn [wf_item]. intros H. apply andb_true_iff in H as [Hwf Hfirst].
  destruct items as [|b items]; [discriminate|]. cbn [first_char] in Hfirst. cbn [forallb] in Hwf.
  pose proof Hwf as Hwf0. apply andb_true_iff in Hwf as [Hb Hwf].
  destruct (item_head b Hb) as (c & t & E & Hrb & Hm). rewrite E in Hfirst. cbn [hd_error] in Hfirst.
  assert (Hcons : show_body (b :: items) ++ ch_rb :: rest = show_bitem b ++ (show_body items ++ ch_rb :: rest)).
  { unfold show_body. cbn [map concat]. now rewrite <- app_assoc. }
  pose proof (body_len items) as Hlen.
  destruct neg.
  - cbn [app]. unfold cc_parse. change (ch_caret =? ch_caret) with true. cbv iota.
    rewrite Hcons. rewrite cc_step by (try assumption; now apply body_no_minus).
    rewrite cc_body; [reflexivity|assumption|]. rewrite !app_length. pose proof (show_bitem_len b). cbn [length]. lia.
  - cbn [app orb] in *. apply andb_true_iff in Hfirst as [_ Hc]. apply neqb_false in Hc.
    set (X := show_body items ++ ch_rb :: rest) in *.
    assert (E' : show_bitem b ++ X = c :: (t ++ X)) by (rewrite E; reflexivity).
    unfold cc_parse. rewrite Hcons, E'. rewrite Hc. rewrite <- E'.
    subst X. rewrite cc_step by (try assumption; now apply body_no_minus).
    rewrite cc_body; [reflexivity|assumption|]. rewrite !app_length. cbn [length]. lia.
Qed.

(* ---- extract_bracket_expr on a well-formed bracket ---- *)
Lemma extract_bracket_ok neg items rest : wf_item (GBr neg items) = true ->
  extract_bracket ((if neg then [ch_bang] else []) ++ show_body items ++ ch_rb :: rest)
  = BrOk (tr_item (GBr neg items)) rest.
Proof.
  intros Hwf. pose proof (cc_parse_bracket neg items [] Hwf) as Hcc.
  cbn [wf_item] in Hwf. apply andb_true_iff in Hwf as [Hall Hfirst].
  destruct items as [|b items]; [discriminate|]. cbn [first_char] in Hfirst. cbn [forallb] in Hall.
  pose proof Hall as Hall0. apply andb_true_iff in Hall as [Hb Hall].
  destruct (item_head b Hb) as (c & t & E & Hrb & Hm). rewrite E in Hfirst. cbn [hd_error] in Hfirst.
  set (B := show_body (b :: items)) in *.
  assert (EB : exists t', B ++ ch_rb :: rest = c :: t').
  { subst B. unfold show_body. cbn [map concat]. rewrite E. cbn [app]. eauto. }
  destruct EB as (t' & EB).
  assert (Hscan : forall e, scan_bracket (S (length (B ++ ch_rb :: rest))) (B ++ ch_rb :: rest) e = Some (e ++ B ++ [ch_rb], rest)).
  { intros e. apply scan_body; [exact Hall0|apply Nat.lt_succ_diag_r]. }
  unfold extract_bracket. destruct neg.
  - cbn [app]. change ((ch_bang =? ch_bang) || (ch_bang =? ch_caret)) with true. cbv iota.
    rewrite EB at 1. rewrite Hrb. rewrite Hscan.
    cbn [app tl tr_item]. cbn [app] in Hcc. rewrite Hcc. reflexivity.
  - cbn [app orb] in *. apply andb_true_iff in Hfirst as [Hbang Hcaret]. apply neqb_false in Hbang. apply neqb_false in Hcaret.
    rewrite EB at 1. rewrite Hbang, Hcaret. cbn [orb]. rewrite EB at 1. rewrite Hrb. rewrite Hscan.
    cbn [app tl tr_item]. rewrite Hcc. reflexivity.
Qed.

(* ---- glob_to_regex writes the expected text ---- *)
Lemma show_item_len x : 1 <= length (show_item x).
Proof. destruct x; cbn [show_item length app]; lia. Qed.

Theorem glob_to_regex_prefix : forall g fuel p acc, forallb wf_item g = true ->
  glob_to_regex (length g + fuel) (show g ++ p) acc = glob_to_regex fuel p (acc ++ tr g).
Proof.
  induction g as [|x g IH]; intros fuel p acc Hwf.
  - cbn. now rewrite app_nil_r.
  - cbn [forallb] in Hwf. apply andb_true_iff in Hwf as [Hx Hwf].
    unfold show, tr in *. cbn [map concat length plus] in *. fold (show g) in *. fold (tr g) in *.
    rewrite <- !app_assoc.
    destruct x as [c|c| | |neg items].
    + cbn [wf_item] in Hx. repeat (apply andb_true_iff in Hx as [Hx ?]).
      cbn [show_item app tr_item glob_to_regex length] in *.
      rewrite (neqb_false c ch_q), (neqb_false c ch_star), (neqb_false c ch_bs), (neqb_false c ch_lb) by assumption.
      rewrite IH by assumption. now rewrite app_assoc.
    + cbn [show_item app tr_item glob_to_regex length] in *.
      change (ch_bs =? ch_q) with false. change (ch_bs =? ch_star) with false. change (ch_bs =? ch_bs) with true. cbv iota.
      rewrite IH by assumption. now rewrite app_assoc.
    + cbn [show_item app tr_item glob_to_regex length] in *. change (ch_q =? ch_q) with true. cbv iota.
      rewrite IH by assumption. now rewrite <- app_assoc.
    + cbn [show_item app tr_item glob_to_regex length] in *.
      change (ch_star =? ch_q) with false. change (ch_star =? ch_star) with true. cbv iota.
      rewrite IH by assumption. now rewrite <- app_assoc.
    + cbn [show_item] in *. rewrite <- !app_assoc in *.
      change ([ch_lb] ++ (if neg then [ch_bang] else []) ++ show_body items ++ [ch_rb] ++ show g ++ p)
        with (ch_lb :: (if neg then [ch_bang] else []) ++ show_body items ++ ch_rb :: (show g ++ p)) in *.
      cbn [glob_to_regex].
      change (ch_lb =? ch_q) with false. change (ch_lb =? ch_star) with false. change (ch_lb =? ch_bs) with false.
      change (ch_lb =? ch_lb) with true. cbv iota.
      rewrite extract_bracket_ok by exact Hx.
      assert (Hl : (length (show g ++ p) <? length ((if neg then [ch_bang] else []) ++ show_body items ++ ch_rb :: (show g ++ p))) = true).
      { apply Nat.ltb_lt. rewrite !app_length. cbn [length]. rewrite !app_length. lia. }
      rewrite Hl. rewrite IH by assumption. now rewrite app_assoc.
Qed.

Lemma items_le_show g : length g <= length (show g).
Proof.
  induction g as [|x g IH]; [cbn; lia|]. unfold show in *. cbn [map concat length]. rewrite app_length.
  pose proof (show_item_len x). lia.
Qed.

Theorem glob_to_regex_text g : forallb wf_item g = true ->
  glob_to_regex (S (length (show g))) (show g) [] = GText (tr g).
Proof.
  intros Hwf. pose proof (items_le_show g) as Hl.
  replace (S (length (show g))) with (length g + S (length (show g) - length g)) by lia.
  rewrite <- (app_nil_r (show g)) at 2. rewrite glob_to_regex_prefix by assumption. reflexivity.
Qed.

(* ---- Oniguruma reads the text back as the glob's meaning ---- *)
Lemma push_literal_parse f ci c t : (match t with d :: _ => (d =? ch_star) = false | [] => True end) ->
  parse_bre (S f) ci (push_literal c ++ t) = option_map (cons (RSingle (ci_eq ci c))) (parse_bre f ci t).
Proof.
  intros _. unfold push_literal. destruct (needs_escape c) eqn:E.
  - cbn [app parse_bre]. change (ch_bs =? ch_bs) with true. reflexivity.
  - unfold needs_escape in E. repeat (apply orb_false_iff in E as [E ?]).
    cbn [app parse_bre]. replace (c =? ch_bs) with false by auto. replace (c =? ch_dot) with false by auto.
    replace (c =? ch_lb) with false by auto. reflexivity.
Qed.

Lemma tr_item_head x : wf_item x = true -> exists d t, tr_item x = d :: t /\ (d =? ch_star) = false.
Proof.
  intros _. destruct x as [c|c| | |neg items]; cbn [tr_item].
  1,2: unfold push_literal; destruct (needs_escape c) eqn:E; [exists ch_bs; eexists; split; reflexivity|];
       exists c; eexists; split; [reflexivity|]; unfold needs_escape in E; repeat (apply orb_false_iff in E as [E ?]); assumption.
  - exists ch_dot. eexists. split; reflexivity.
  - exists ch_dot. eexists. split; reflexivity.
  - exists ch_lb. eexists. split; reflexivity.
Qed.

Lemma tr_no_star g : forallb wf_item g = true -> match tr g with d :: _ => (d =? ch_star) = false | [] => True end.
Proof.
  destruct g as [|x g]; intros H; [exact Logic.I|]. cbn [forallb] in H. apply andb_true_iff in H as [Hx _].
  destruct (tr_item_head x Hx) as (d & t & E & Hd). unfold tr. cbn [map concat]. rewrite E. exact Hd.
Qed.

Definition no_star (t : list nat) : Prop := match t with d :: _ => (d =? ch_star) = false | [] => True end.

Theorem parse_bre_prefix : forall g ci fuel t, forallb wf_item g = true -> no_star t ->
  parse_bre (length g + S fuel) ci (tr g ++ t) = option_map (app (sem ci g)) (parse_bre (S fuel) ci t).
Proof.
  induction g as [|x g IH]; intros ci fuel t Hwf Ht.
  - cbn [length plus tr map concat app sem]. now destruct (parse_bre (S fuel) ci t).
  - cbn [forallb] in Hwf. apply andb_true_iff in Hwf as [Hx Hwf].
    assert (Hns : no_star (tr g ++ t)).
    { pose proof (tr_no_star g Hwf) as H. destruct (tr g); [exact Ht|exact H]. }
    assert (Hmap : forall (r : ritem) o, option_map (cons r) (option_map (app (sem ci g)) o) = option_map (app (r :: sem ci g)) o)
      by (intros r [o|]; reflexivity).
    unfold tr, sem in *. cbn [map concat length plus] in *. fold (tr g) in *. fold (sem ci g) in *.
    rewrite <- !app_assoc.
    destruct x as [c|c| | |neg items]; cbn [tr_item sem_item] in *.
    + rewrite push_literal_parse by exact Hns. rewrite IH by assumption. apply Hmap.
    + rewrite push_literal_parse by exact Hns. rewrite IH by assumption. apply Hmap.
    + cbn [app parse_bre] in *. change (ch_dot =? ch_bs) with false. change (ch_dot =? ch_dot) with true. cbv iota.
      destruct (tr g ++ t) as [|d t2] eqn:Et.
      * destruct g as [|y g']; [|exfalso; cbn [forallb] in Hwf; apply andb_true_iff in Hwf as [Hy _];
          destruct (tr_item_head y Hy) as (d & t0 & E & _); unfold tr in Et; cbn [map concat] in Et; rewrite E in Et; discriminate].
        cbn in Et. subst t. reflexivity.
      * cbn in Hns. rewrite Hns. rewrite <- Et. rewrite IH by assumption. apply Hmap.
    + cbn [app parse_bre] in *. change (ch_dot =? ch_bs) with false. change (ch_dot =? ch_dot) with true.
      change (ch_star =? ch_star) with true. cbv iota. rewrite IH by assumption. apply Hmap.
    + rewrite <- !app_assoc.
      change ([ch_lb] ++ (if neg then [ch_caret] else []) ++ show_body items ++ [ch_rb] ++ tr g ++ t)
        with (ch_lb :: ((if neg then [ch_caret] else []) ++ show_body items ++ [ch_rb] ++ tr g ++ t)).
      change ([ch_rb] ++ tr g ++ t) with (ch_rb :: (tr g ++ t)).
      cbn [parse_bre]. change (ch_lb =? ch_bs) with false. change (ch_lb =? ch_dot) with false. change (ch_lb =? ch_lb) with true. cbv iota.
      rewrite cc_parse_bracket by exact Hx. rewrite IH by assumption. apply Hmap.
Qed.

Lemma items_le_tr g : forallb wf_item g = true -> length g <= length (tr g).
Proof.
  induction g as [|x g IH]; intros H; [cbn; lia|]. cbn [forallb] in H. apply andb_true_iff in H as [Hx H].
  unfold tr in *. cbn [map concat length]. rewrite app_length.
  destruct (tr_item_head x Hx) as (d & t & E & _). rewrite E. cbn [length]. specialize (IH H). lia.
Qed.

Theorem parse_bre_meaning g ci : forallb wf_item g = true ->
  parse_bre (S (length (tr g))) ci (tr g) = Some (sem ci g).
Proof.
  intros Hwf. pose proof (items_le_tr g Hwf) as Hl.
  replace (S (length (tr g))) with (length g + S (length (tr g) - length g)) by lia.
  rewrite <- (app_nil_r (tr g)) at 2. rewrite parse_bre_prefix by (try assumption; exact Logic.I).
  cbn. now rewrite app_nil_r.
Qed.

(* ---- the pipeline: -name / -path / -lname on a well-formed glob is fnmatch of its meaning ---- *)
Theorem glob_match_is_fnmatch g ci s : forallb wf_item g = true ->
  glob_match ci (show g) s = if fn (sem ci g) s then 1 else 0.
Proof.
  intros Hwf. unfold glob_match. rewrite glob_to_regex_text by assumption.
  rewrite parse_bre_meaning by assumption. now rewrite nfa_fnmatch.
Qed.

(* a pattern ending in an unescaped backslash matches nothing *)
Theorem trailing_backslash_never g ci s : forallb wf_item g = true -> glob_match ci (show g ++ [ch_bs]) s = 0.
Proof.
  intros Hwf. unfold glob_match. pose proof (items_le_show g) as Hl.
  replace (S (length (show g ++ [ch_bs]))) with (length g + S (S (length (show g) - length g))) by (rewrite app_length; cbn [length]; lia).
  rewrite glob_to_regex_prefix by assumption. reflexivity.
Qed.

(* a final "[" that opens nothing stands for itself *)
Theorem lone_bracket_literal g ci s : forallb wf_item g = true ->
  glob_match ci (show g ++ [ch_lb]) s = if fn (sem ci g ++ [RSingle (ci_eq ci ch_lb)]) s then 1 else 0.
Proof.
  intros Hwf. unfold glob_match. pose proof (items_le_show g) as Hl. pose proof (items_le_tr g Hwf) as Hl2.
  replace (S (length (show g ++ [ch_lb]))) with (length g + S (S (length (show g) - length g))) by (rewrite app_length; cbn [length]; lia).
  rewrite glob_to_regex_prefix by assumption. cbn [app]. 
  change (glob_to_regex (S (S (length (show g) - length g))) [ch_lb] (tr g)) with (GText (tr g ++ [ch_bs; ch_lb])). cbv iota.
  replace (S (length (tr g ++ [ch_bs; ch_lb]))) with (length g + S (S (S (length (tr g) - length g)))) by (rewrite app_length; cbn [length]; lia).
  rewrite parse_bre_prefix by (try assumption; reflexivity).
  change (parse_bre (S (S (S (length (tr g) - length g)))) ci [ch_bs; ch_lb]) with (Some [RSingle (ci_eq ci ch_lb)]).
  cbn [option_map]. now rewrite nfa_fnmatch.
Qed.
