Require Import GlobEngine.
From Coq Require Import List Arith Bool Lia.
Import ListNotations.

(* prefix match of length e *)
Definition Pm (r : re) (s : list nat) (e : nat) := e <= length s /\ fn r (firstn e s) = true.

Lemma go_spec r' s : go r' s = true <-> exists k, k <= length s /\ fn r' (skipn k s) = true.
Proof.
  induction s as [|c s IH]; cbn [go].
  - rewrite orb_false_r. split.
    + intros H. exists 0. cbn. auto.
    + intros (k & Hk & H). cbn in Hk. assert (k = 0) by lia. subst. exact H.
  - rewrite orb_true_iff, IH. split.
    + intros [H|(k & Hk & H)]. { exists 0. cbn. split; [lia|exact H]. }
      exists (S k). cbn. split; [lia|exact H].
    + intros (k & Hk & H). destruct k as [|k]; [left; exact H|]. right. exists k. cbn in *. split; [lia|exact H].
Qed.


Lemma star_none r' s : star r' s = None -> forall i, i <= length s -> bt r' (skipn i s) = None.
Proof.
  induction s as [|c s IH]; cbn [star]; intros H i Hi.
  - cbn in Hi. assert (i = 0) by lia. subst. exact H.
  - destruct (star r' s) as [m1|] eqn:E; [discriminate|].
    destruct i as [|i]; [exact H|]. cbn in *. apply IH; [reflexivity|lia].
Qed.

Lemma star_some r' s m : star r' s = Some m ->
  exists i m', i <= length s /\ bt r' (skipn i s) = Some m' /\ m = i + m' /\
               forall i', i < i' -> i' <= length s -> bt r' (skipn i' s) = None.
Proof.
  revert m. induction s as [|c s IH]; intros m; cbn [star].
  - intros H. exists 0, m. cbn. repeat split; auto. intros; lia.
  - destruct (star r' s) as [m1|] eqn:E.
    + intros [= <-]. destruct (IH m1 eq_refl) as (i & m' & Hi & H & -> & Hmax).
      exists (S i), m'. cbn [skipn length]. repeat split; try lia; auto.
      intros i' Hlt Hle. destruct i' as [|i']; [lia|]. cbn. apply Hmax; lia.
    + intros H. exists 0, m. cbn [skipn]. repeat split; auto; try lia.
      intros i' Hlt Hle. destruct i' as [|i']; [lia|]. cbn in *. apply star_none; [exact E|lia].
Qed.

Lemma skipn_firstn_sub {A} k e (l : list A) : k <= e -> skipn k (firstn e l) = firstn (e - k) (skipn k l).
Proof.
  revert e l. induction k as [|k IH]; intros e l H.
  - now rewrite Nat.sub_0_r.
  - destruct e as [|e]; [lia|]. destruct l as [|x l]; [now rewrite !firstn_nil|].
    cbn. apply IH. lia.
Qed.

Lemma skipn_skipn {A} i j (l : list A) : skipn i (skipn j l) = skipn (i + j) l.
Proof.
  revert l. induction j as [|j IH]; intros l.
  - now rewrite Nat.add_0_r.
  - destruct l as [|x l]; [now rewrite !skipn_nil|]. rewrite Nat.add_succ_r. cbn. apply IH.
Qed.

Lemma fn_nil_firstn e s : e <= length s -> fn [] (firstn e s) = true -> e = 0.
Proof. destruct e; [reflexivity|]. destruct s; cbn; [lia|discriminate]. Qed.

(* soundness: what bt reports is a prefix match *)
Lemma bt_sound r : forall s m, bt r s = Some m -> Pm r s m.
Proof.
  induction r as [|[f|] r IH]; intros s m.
  - cbn. intros [= <-]. split; [lia|reflexivity].
  - cbn [bt]. destruct s as [|c s]; [discriminate|]. destruct (f c) eqn:Ef; [|discriminate].
    destruct (bt r s) as [m1|] eqn:E; [|discriminate]. intros [= <-].
    destruct (IH _ _ E) as [Hl Hf]. split; [cbn; lia|]. cbn. now rewrite Ef, Hf.
  - rewrite bt_star. intros H. destruct (star_some _ _ _ H) as (i & m' & Hi & Hb & -> & _).
    destruct (IH _ _ Hb) as [Hl Hf]. rewrite skipn_length in Hl.
    split; [lia|]. rewrite fn_star. apply go_spec. exists i. split.
    + rewrite firstn_length. lia.
    + rewrite skipn_firstn_sub by lia. now replace (i + m' - i) with m' by lia.
Qed.

(* completeness: if some prefix matches, the search does not fail *)
Lemma bt_complete r : forall s e, Pm r s e -> bt r s <> None.
Proof.
  induction r as [|[f|] r IH]; intros s e [Hl Hf].
  - cbn. discriminate.
  - cbn [bt]. destruct s as [|c s]; [destruct e; cbn in *; [discriminate|lia]|].
    destruct e as [|e]; [cbn in Hf; discriminate|]. cbn [firstn fn] in Hf. cbn [length] in Hl.
    apply andb_true_iff in Hf as [Hc Hf]. rewrite Hc.
    assert (Hl' : e <= length s) by lia.
    specialize (IH s e (conj Hl' Hf)). destruct (bt r s); [discriminate|contradiction].
  - rewrite bt_star. rewrite fn_star in Hf. apply go_spec in Hf as (k & Hk & Hf).
    rewrite firstn_length in Hk. rewrite skipn_firstn_sub in Hf by lia.
    intros Hn. pose proof (star_none _ _ Hn k ltac:(lia)) as Hnone.
    apply (IH (skipn k s) (e - k)); [|exact Hnone]. split; [rewrite skipn_length; lia|exact Hf].
Qed.

(* a later start never ends before an earlier prefix match *)
Lemma bt_shift r : forall t j e m', Pm r t e -> j <= length t -> bt r (skipn j t) = Some m' -> e <= j + m'.
Proof.
  induction r as [|[f|] r IH]; intros t j e m' [Hl Hf] Hj Hb.
  - apply fn_nil_firstn in Hf; [lia|exact Hl].
  - destruct t as [|c t]; [destruct e; cbn in *; [discriminate|lia]|].
    destruct e as [|e]; [cbn in Hf; discriminate|]. cbn [firstn fn] in Hf. cbn [length] in Hl.
    apply andb_true_iff in Hf as [Hc Hf].
    cbn [bt] in Hb. destruct (skipn j (c :: t)) as [|d u] eqn:Eu; [discriminate|].
    destruct (f d); [|discriminate]. destruct (bt r u) as [m1|] eqn:E1; [|discriminate].
    injection Hb as <-.
    assert (Hu : u = skipn j t /\ j <= length t).
    { assert (Hlen : length (skipn j (c :: t)) = length (d :: u)) by now rewrite Eu.
      rewrite skipn_length in Hlen. cbn [length] in Hlen. split; [|lia].
      replace u with (skipn 1 (skipn j (c :: t))) by now rewrite Eu.
      rewrite skipn_skipn. now replace (1 + j) with (S j) by lia. }
    destruct Hu as [-> Hjt].
    assert (Hl' : e <= length t) by lia.
    specialize (IH t j e m1 (conj Hl' Hf) Hjt E1). lia.
  - rewrite bt_star in Hb. rewrite fn_star in Hf. apply go_spec in Hf as (k & Hk & Hf).
    rewrite firstn_length in Hk. rewrite skipn_firstn_sub in Hf by lia.
    destruct (star_some _ _ _ Hb) as (i & m1 & Hi & Hb1 & -> & Hmax).
    rewrite skipn_length in Hi. rewrite skipn_skipn in Hb1.
    assert (Hpm : Pm r (skipn k t) (e - k)) by (split; [rewrite skipn_length; lia|exact Hf]).
    destruct (Nat.le_gt_cases k (i + j)) as [Hle|Hgt].
    + assert (E : e - k <= (i + j - k) + m1).
      { apply (IH (skipn k t)); [exact Hpm|rewrite skipn_length; lia|].
        rewrite skipn_skipn. now replace (i + j - k + k) with (i + j) by lia. }
      lia.
    + exfalso. apply (bt_complete r _ _ Hpm).
      specialize (Hmax (k - j) ltac:(lia) ltac:(rewrite skipn_length; lia)).
      rewrite skipn_skipn in Hmax. now replace (k - j + j) with k in Hmax by lia.
Qed.

Theorem is_match_fnmatch r s : is_match r s = fn r s.
Proof.
  unfold is_match. destruct (fn r s) eqn:Ef.
  - assert (Hpm : Pm r s (length s)) by (split; [lia|now rewrite firstn_all]).
    destruct (bt r s) as [m|] eqn:Eb; [|exfalso; now apply (bt_complete r s _ Hpm)].
    destruct (bt_sound _ _ _ Eb) as [Hl _].
    pose proof (bt_shift r s 0 (length s) m Hpm ltac:(lia) Eb). apply Nat.eqb_eq. lia.
  - destruct (bt r s) as [m|] eqn:Eb; [|reflexivity].
    apply Nat.eqb_neq. intros ->. destruct (bt_sound _ _ _ Eb) as [_ Hf].
    rewrite firstn_all in Hf. congruence.
Qed.
Check is_match_fnmatch.
Print Assumptions is_match_fnmatch.
