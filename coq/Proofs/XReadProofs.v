Require Import XRead.
From Coq Require Import List Arith Bool Lia.
Import ListNotations.

Section AnyMode.
Variable wl : bool.
Local Notation scan := (XRead.scan wl).
Local Notation refill := (XRead.refill wl).
Local Notation next := (XRead.next wl).
Local Notation flat_next := (XRead.flat_next wl).
Local Notation read_all := (XRead.read_all wl).
Local Notation flat_all := (XRead.flat_all wl).

Lemma scan_app e acc ia eb b1 b2 :
  scan e acc ia eb (b1 ++ b2) = match scan e acc ia eb b1 with
                                | Done t h rest => Done t h (rest ++ b2)
                                | NeedMore e' acc' ia' eb' => scan e' acc' ia' eb' b2
                                | Fail => Fail
                                end.
Proof.
  revert e acc ia eb. induction b1 as [|c b1 IH]; intros e acc ia eb; [reflexivity|].
  cbn [app scan]. destruct e as [| |q].
  - destruct (is_quote c); [apply IH|]. destruct (c =? 92); [apply IH|].
    destruct (is_ws c && negb (wl && ia && negb (c =? 10))); [|apply IH]. destruct ia; [reflexivity|apply IH].
  - apply IH.
  - destruct (c =? q); [apply IH|]. destruct (c =? 10); [reflexivity|apply IH].
Qed.

Definition proj (r : res (option (list byte * bool * list byte * list (list byte)))) :=
  match r with
  | Err => Err
  | Ok None => Ok None
  | Ok (Some (t, h, p, cs)) => Ok (Some (t, h, p ++ concat cs))
  end.

Lemma refill_flat : forall chunks e acc ia eb,
  proj (refill e acc ia eb chunks) =
  match scan e acc ia eb (concat chunks) with
  | Done t h rest => Ok (Some (t, h, rest))
  | NeedMore e' acc' ia' _ => match e' with
                            | EQuote _ => Err
                            | _ => if ia' then Ok (Some (acc', false, [])) else Ok None
                            end
  | Fail => Err
  end.
Proof.
  induction chunks as [|c cs IH]; intros e acc ia eb.
  - cbn. destruct e; try reflexivity; destruct ia; reflexivity.
  - cbn [refill concat]. rewrite scan_app.
    destruct (scan e acc ia eb c) as [t h rest|e' acc' ia' eb'|] eqn:E; [reflexivity| |reflexivity].
    apply IH.
Qed.

Theorem next_flat pending chunks :
  proj (next pending chunks) = flat_next (pending ++ concat chunks).
Proof.
  unfold next, flat_next. rewrite scan_app.
  destruct (scan ENone [] false false pending) as [t h rest|e acc ia eb|] eqn:E; [reflexivity| |reflexivity].
  apply refill_flat.
Qed.

(* the argument sequence (and which arguments end a line) depends only on the input bytes,
   for EVERY way of cutting the stream into read() results (empty chunks included: the
   model treats an empty chunk as a read that returned nothing new before more data, which
   the real reader cannot see - a 0-byte read is end of file - so the theorem is used for
   non-empty chunks; it does not need the hypothesis). *)
Theorem chunk_independent : forall fuel pending chunks,
  read_all fuel pending chunks = flat_all fuel (pending ++ concat chunks).
Proof.
  induction fuel as [|f IH]; intros pending chunks; [reflexivity|].
  cbn [read_all flat_all]. rewrite <- next_flat.
  destruct (next pending chunks) as [[[[[t h] p] cs]|]|] eqn:E; cbn [proj]; try reflexivity.
  rewrite IH; reflexivity.
Qed.
End AnyMode.
