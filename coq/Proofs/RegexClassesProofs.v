(* The scanners agree on where a bracket expression ends: where check_classes (GNU's reading: "[:" "[." "[=" run to their own
   ":]" ".]" "=]") finds a bracket expression closed, spell_collating leaves it too, and the engine - which has no collating
   symbols and ends a class at the first "]" - reading what spell_collating wrote, closes it at the same place.  The condition
   is the boundary of the known finding [collating-specials]: every symbol names an ordinary character. *)
Require Import Tables RegexWrap RegexClasses.
From Coq Require Import List Arith Bool Lia.
Import ListNotations.

(* the engine's reading of a bracket expression, from behind its "[" (and "^", and a "]" first): Some k - closed, k follows *)
Fixpoint eng_members (cls in_class : bool) (t : list nat) : option (list nat) :=
  match t with
  | [] => None
  | c :: t' =>
      if in_class then (if c =? c_rb then eng_members cls false t' else eng_members cls true t')
      else if c =? c_rb then Some t'
      else if cls && (c =? c_lb) then
        match t' with
        | d :: t'' => if d =? c_colon then eng_members cls true t'' else eng_members cls false t'
        | [] => None
        end
      else eng_members cls false t'
  end.

(* members_ok, and every collating symbol and equivalence class on the way names an ordinary character *)
Fixpoint members_strict (fuel : nat) (cls : bool) (st : rstate) (m : list nat) : option (list nat) :=
  match fuel with
  | 0 => None
  | S f =>
    match next_sq m with
    | None => None
    | Some (before, c, after) =>
        if c =? c_rb then (match scan_members before st true with Some _ => Some after | None => None end)
        else
        match scan_members before st false with
        | None => None
        | Some st1 =>
             match after with
             | d :: inner =>
                 if cls && (d =? c_colon) then
                   match find_close c_colon inner with
                   | Some (name, rest) => if existsb (w_eqb name) regex_class_names then members_strict f cls RNo rest else None
                   | None => None
                   end
                 else if (d =? c_dot) || (d =? c_eq) then
                   match find_close d inner with
                   | Some ([x], rest) =>
                       if (d =? c_eq) && (rstate_eqb st1 ROpen || dash_with_end rest) then None
                       else if ordinary x then members_strict f cls (if d =? c_eq then RNo else if rstate_eqb st1 ROpen then RDone else RStart) rest
                            else None
                   | _ => None
                   end
                 else (match scan_members [c_lb] st1 false with Some st2 => members_strict f cls st2 after | None => None end)
             | [] => (match scan_members [c_lb] st1 false with Some st2 => members_strict f cls st2 after | None => None end)
             end
        end
    end
  end.
Lemma strict_ok : forall fuel cls st m r, members_strict fuel cls st m = Some r -> members_ok fuel cls st m = Some r.
Proof.
  induction fuel as [|f IH]; intros cls st m r H; [discriminate|]. cbn [members_strict members_ok] in *.
  destruct (next_sq m) as [[[before c] after]|]; [|discriminate].
  destruct (c =? c_rb); [exact H|].
  destruct (scan_members before st false) as [st1|]; [|discriminate].
  destruct after as [|d inner].
  { destruct (scan_members [c_lb] st1 false) as [st2|]; [now apply IH|discriminate]. }
  destruct (cls && (d =? c_colon)).
  { destruct (find_close c_colon inner) as [[name rest]|]; [|discriminate].
    destruct (existsb (w_eqb name) regex_class_names); [now apply IH|discriminate]. }
  destruct ((d =? c_dot) || (d =? c_eq)).
  2:{ destruct (scan_members [c_lb] st1 false) as [st2|]; [now apply IH|discriminate]. }
  destruct (find_close d inner) as [[[|x [|y l]] rest]|]; try discriminate.
  destruct ((d =? c_eq) && (rstate_eqb st1 ROpen || dash_with_end rest)); [discriminate|].
  destruct (ordinary x); [now apply IH|discriminate].
Qed.

Definition plain (b : list nat) : Prop := forallb (fun x => negb ((x =? c_lb) || (x =? c_rb))) b = true.
Lemma next_sq_spec : forall m b c a, next_sq m = Some (b, c, a) -> m = b ++ c :: a /\ plain b /\ ((c =? c_lb) || (c =? c_rb)) = true.
Proof.
  induction m as [|x m IH]; intros b c a H; [discriminate|]. cbn [next_sq] in H.
  destruct ((x =? c_lb) || (x =? c_rb)) eqn:E.
  - injection H as <- <- <-. split; [reflexivity|split; [reflexivity|exact E]].
  - destruct (next_sq m) as [[[b' c'] a']|]; [|discriminate]. injection H as <- <- <-.
    destruct (IH _ _ _ eq_refl) as (-> & Hp & Hc). split; [reflexivity|split; [|exact Hc]]. unfold plain. cbn [forallb]. now rewrite E, Hp.
Qed.
Lemma find_close_spec : forall d l a b, find_close d l = Some (a, b) -> l = a ++ d :: c_rb :: b.
Proof.
  induction l as [|c l IH]; intros a b H; [discriminate|]. cbn [find_close] in H.
  destruct l as [|r l']; [discriminate|].
  destruct ((c =? d) && (r =? c_rb)) eqn:E.
  - injection H as <- <-. apply andb_true_iff in E as [E1 E2]. apply Nat.eqb_eq in E1, E2. now subst.
  - destruct (find_close d (r :: l')) as [[a' b']|]; [|discriminate]. injection H as <- <-. now rewrite (IH _ _ eq_refl).
Qed.

Lemma collp_plain cls : forall b t, plain b -> collp cls (CB false false) (b ++ t) = b ++ collp cls (CB false false) t.
Proof.
  induction b as [|x b IH]; intros t H; [reflexivity|]. unfold plain in H. cbn [forallb] in H. apply andb_true_iff in H as [Hx H].
  apply negb_true_iff, orb_false_iff in Hx as [H1 H2]. cbn [app collp andb]. rewrite H2, H1. now rewrite IH.
Qed.
Lemma eng_plain cls : forall b t, plain b -> eng_members cls false (b ++ t) = eng_members cls false t.
Proof.
  induction b as [|x b IH]; intros t H; [reflexivity|]. unfold plain in H. cbn [forallb] in H. apply andb_true_iff in H as [Hx H].
  apply negb_true_iff, orb_false_iff in Hx as [H1 H2]. cbn [app eng_members]. rewrite H2, H1, andb_false_r. now apply IH.
Qed.
(* a class name holds no "]" *)
Lemma class_name_plain name : existsb (w_eqb name) regex_class_names = true -> forallb (fun x => negb (x =? c_rb)) name = true.
Proof.
  assert (Heq : forall a b, w_eqb a b = true -> a = b).
  { induction a as [|x a IH]; intros [|y b] H; try discriminate; [reflexivity|]. cbn [w_eqb] in H. apply andb_true_iff in H as [H1 H2].
    apply Nat.eqb_eq in H1. subst. f_equal. now apply IH. }
  intros H. apply existsb_exists in H as (n & Hin & He). apply Heq in He. subst n.
  unfold regex_class_names in Hin. repeat (destruct Hin as [<-|Hin]; [reflexivity|]). destruct Hin.
Qed.
Lemma collp_class cls : forall name t, forallb (fun x => negb (x =? c_rb)) name = true ->
  collp cls CC (name ++ c_rb :: t) = name ++ c_rb :: collp cls (CB false false) t.
Proof.
  induction name as [|x n IH]; intros t H; cbn [app collp]; [reflexivity|].
  cbn [forallb] in H. apply andb_true_iff in H as [Hx H]. apply negb_true_iff in Hx. rewrite Hx. now rewrite IH.
Qed.
Lemma eng_class cls : forall name t, forallb (fun x => negb (x =? c_rb)) name = true ->
  eng_members cls true (name ++ c_rb :: t) = eng_members cls false t.
Proof.
  induction name as [|x n IH]; intros t H; cbn [app eng_members]; [reflexivity|].
  cbn [forallb] in H. apply andb_true_iff in H as [Hx H]. apply negb_true_iff in Hx. rewrite Hx. now apply IH.
Qed.

Lemma ordinary_facts x : ordinary x = true ->
  (x =? c_rb) = false /\ (x =? c_caret) = false /\ (x =? c_lb) = false /\ (x =? c_colon) = false /\ (x =? c_bs) = false.
Proof. unfold ordinary. rewrite negb_true_iff, !orb_false_iff. tauto. Qed.

Lemma collp_class' cls name t : forallb (fun x => negb (x =? c_rb)) name = true ->
  collp cls CC (c_colon :: name ++ c_colon :: c_rb :: t) = c_colon :: name ++ c_colon :: c_rb :: collp cls (CB false false) t.
Proof.
  intros H. replace (c_colon :: name ++ c_colon :: c_rb :: t) with ((c_colon :: name ++ [c_colon]) ++ c_rb :: t)
    by (cbn [app]; rewrite <- app_assoc; reflexivity).
  rewrite collp_class; [cbn [app]; rewrite <- app_assoc; reflexivity|]. cbn [forallb]. rewrite forallb_app, H. reflexivity.
Qed.
Lemma eng_class' cls name t : forallb (fun x => negb (x =? c_rb)) name = true ->
  eng_members cls true (name ++ c_colon :: c_rb :: t) = eng_members cls false t.
Proof.
  intros H. replace (name ++ c_colon :: c_rb :: t) with ((name ++ [c_colon]) ++ c_rb :: t) by (rewrite <- app_assoc; reflexivity).
  apply eng_class. rewrite forallb_app, H. reflexivity.
Qed.
(* "[" inside a bracket expression, not followed by a collating symbol or an equivalence class *)
Lemma collp_lb cls d inner : ((d =? c_dot) || (d =? c_eq)) = false ->
  collp cls (CB false false) (c_lb :: d :: inner) =
  if cls && (d =? c_colon) then c_lb :: collp cls CC (d :: inner) else c_lb :: collp cls (CB false false) (d :: inner).
Proof.
  intros H. cbn [collp andb]. change (c_lb =? c_rb) with false. change (c_lb =? c_lb) with true. cbv iota zeta.
  destruct inner as [|x [|e [|r s]]]; try reflexivity. unfold coll_at. rewrite H. reflexivity.
Qed.
Lemma collp_lb_sym cls d x r : ((d =? c_dot) || (d =? c_eq)) = true -> ordinary x = true ->
  collp cls (CB false false) (c_lb :: d :: x :: d :: c_rb :: r) = x :: collp cls (CB false false) r.
Proof.
  intros H Ho. cbn [collp andb]. change (c_lb =? c_rb) with false. change (c_lb =? c_lb) with true. cbv iota zeta.
  unfold coll_at. rewrite H, Nat.eqb_refl, Ho. reflexivity.
Qed.

Definition head_kind (h d : nat) : Prop := h = d \/ h = c_lb \/ ordinary h = true.
Lemma head_kind_not g h d : (g = c_colon \/ g = c_rb \/ g = c_caret) -> (d =? g) = false -> head_kind h d -> (h =? g) = false.
Proof.
  intros Hg Hd [-> | [-> | Ho]]; [exact Hd| |].
  - destruct Hg as [-> | [-> | ->]]; reflexivity.
  - destruct (ordinary_facts h Ho) as (F1 & F2 & F3 & F4 & F5). destruct Hg as [-> | [-> | ->]]; assumption.
Qed.

Lemma bracket_agree cls : forall fuel st m rest, members_strict fuel cls st m = Some rest ->
  exists body, collp cls (CB false false) m = body ++ collp cls CT rest /\
               (forall k, eng_members cls false (body ++ k) = Some k) /\
               (forall d m', m = d :: m' -> exists h b', body = h :: b' /\ head_kind h d).
Proof.
  induction fuel as [|f IH]; intros st m rest H; [discriminate|]. cbn [members_strict] in H.
  destruct (next_sq m) as [[[b c] a]|] eqn:En; [|discriminate].
  destruct (next_sq_spec _ _ _ _ En) as (-> & Hb & Hc).
  (* the head of what is written, given the head of the piece behind the plain members *)
  assert (Hhead : forall h p', (h = c \/ h = c_lb \/ ordinary h = true) ->
            forall d m', b ++ c :: a = d :: m' -> exists h' b', b ++ h :: p' = h' :: b' /\ head_kind h' d).
  { intros h p' Hh d m' Hm. destruct b as [|x b].
    - cbn [app] in *. injection Hm as <- _. now eexists _, _.
    - cbn [app] in *. injection Hm as -> _. eexists _, _. split; [reflexivity|now left]. }
  destruct (c =? c_rb) eqn:Ec.
  { (* the closing "]" *)
    destruct (scan_members b st true); [|discriminate]. injection H as <-. apply Nat.eqb_eq in Ec. subst c.
    exists (b ++ [c_rb]). split; [|split].
    - rewrite collp_plain by exact Hb. rewrite <- app_assoc. cbn [app collp andb]. reflexivity.
    - intros k. rewrite <- app_assoc. rewrite eng_plain by exact Hb. cbn [app eng_members]. reflexivity.
    - apply Hhead. now left. }
  try rewrite Ec in Hc. rewrite orb_false_r in Hc. apply Nat.eqb_eq in Hc. subst c.
  destruct (scan_members b st false) as [st1|]; [|discriminate].
  destruct a as [|d inner].
  { (* "[" last: never closed *)
    destruct (scan_members [c_lb] st1 false); [|discriminate]. destruct f; [discriminate|]. cbn [members_strict next_sq] in H. discriminate. }
  destruct (cls && (d =? c_colon)) eqn:Ecls.
  { (* a class *)
    apply andb_true_iff in Ecls as [-> Ed]. apply Nat.eqb_eq in Ed. subst d.
    destruct (find_close c_colon inner) as [[name r]|] eqn:Ef; [|discriminate].
    destruct (existsb (w_eqb name) regex_class_names) eqn:En2; [|discriminate].
    apply find_close_spec in Ef. subst inner. apply class_name_plain in En2.
    destruct (IH _ _ _ H) as (body' & Hc1 & He1 & _).
    exists (b ++ c_lb :: c_colon :: name ++ c_colon :: c_rb :: body'). split; [|split].
    - rewrite collp_plain by exact Hb. rewrite <- app_assoc. f_equal.
      rewrite collp_lb by reflexivity. cbn [andb]. change (c_colon =? c_colon) with true. cbv iota.
      rewrite collp_class' by exact En2. rewrite Hc1. cbn [app]. rewrite <- app_assoc. reflexivity.
    - intros k. rewrite <- app_assoc. rewrite eng_plain by exact Hb. cbn [app eng_members andb].
      change (c_lb =? c_rb) with false. change (c_lb =? c_lb) with true. change (c_colon =? c_colon) with true. cbv iota.
      rewrite <- app_assoc. cbn [app]. rewrite eng_class' by exact En2. apply He1.
    - apply Hhead. now left. }
  destruct ((d =? c_dot) || (d =? c_eq)) eqn:Esym.
  { (* a collating symbol or an equivalence class naming an ordinary character *)
    destruct (find_close d inner) as [[[|x [|y l]] r]|] eqn:Ef; try discriminate.
    destruct ((d =? c_eq) && (rstate_eqb st1 ROpen || dash_with_end r)); [discriminate|].
    destruct (ordinary x) eqn:Eo; [|discriminate].
    apply find_close_spec in Ef. cbn [app] in Ef. subst inner.
    destruct (IH _ _ _ H) as (body' & Hc1 & He1 & _).
    destruct (ordinary_facts x Eo) as (F1 & F2 & F3 & F4 & F5).
    exists (b ++ x :: body'). split; [|split].
    - rewrite collp_plain by exact Hb. rewrite <- app_assoc. f_equal.
      rewrite collp_lb_sym by assumption. cbn [app]. now rewrite Hc1.
    - intros k. rewrite <- app_assoc. rewrite eng_plain by exact Hb. cbn [app eng_members]. rewrite F1, F3, andb_false_r. apply He1.
    - apply Hhead. now right; right. }
  (* "[" is a plain member *)
  destruct (scan_members [c_lb] st1 false) as [st2|]; [|discriminate].
  destruct (IH _ _ _ H) as (body' & Hc1 & He1 & Hh1).
  exists (b ++ c_lb :: body'). split; [|split].
  - rewrite collp_plain by exact Hb. rewrite <- app_assoc. f_equal.
    rewrite collp_lb by exact Esym. rewrite Ecls. cbn [app]. now rewrite Hc1.
  - intros k. rewrite <- app_assoc. rewrite eng_plain by exact Hb. cbn [app eng_members].
    change (c_lb =? c_rb) with false. change (c_lb =? c_lb) with true. rewrite andb_true_r.
    destruct cls.
    + cbn [andb] in Ecls. destruct (Hh1 d inner eq_refl) as (h & b' & -> & Hk). cbn [app].
      rewrite (head_kind_not c_colon h d (or_introl eq_refl) Ecls Hk). apply (He1 k).
    + apply He1.
  - apply Hhead. now left.
Qed.

(* ---- the whole pattern ---- *)
Definition strip1 (x : nat) (l : list nat) : list nat := match l with c :: r => if c =? x then r else l | [] => l end.
Definition after_open (l : list nat) : list nat := strip1 c_rb (strip1 c_caret l).

(* GNU's reading (check_classes', with the ordinary-character condition): the text outside bracket expressions, 0 for each
   bracket expression; None - refused *)
Fixpoint gnu_out (fuel : nat) (cls : bool) (s : list nat) : option (list nat) :=
  match fuel with
  | 0 => None
  | S f =>
    match s with
    | [] => Some []
    | c :: s' =>
        if c =? c_bs then
          match s' with
          | x :: r => match gnu_out f cls r with Some o => Some (c :: x :: o) | None => None end
          | [] => Some [c]
          end
        else if c =? c_lb then
          let m1 := strip1 c_caret s' in
          let st := match m1 with x :: _ => if x =? c_rb then RStart else RNo | [] => RNo end in
          let m2 := strip1 c_rb m1 in
          match members_strict (S (length m2)) cls st m2 with
          | Some rest => match gnu_out f cls rest with Some o => Some (0 :: o) | None => None end
          | None => None
          end
        else match gnu_out f cls s' with Some o => Some (c :: o) | None => None end
    end
  end.
(* the engine's reading of a text *)
Inductive EngOut (cls : bool) : list nat -> list nat -> Prop :=
| EO_nil : EngOut cls [] []
| EO_bs1 : EngOut cls [c_bs] [c_bs]
| EO_bs x r o : EngOut cls r o -> EngOut cls (c_bs :: x :: r) (c_bs :: x :: o)
| EO_br t' k o : eng_members cls false (after_open t') = Some k -> EngOut cls k o -> EngOut cls (c_lb :: t') (0 :: o)
| EO_ch c t' o : (c =? c_bs) = false -> (c =? c_lb) = false -> EngOut cls t' o -> EngOut cls (c :: t') (c :: o).

Lemma collp_flags cls mc mr m :
  (mc = true -> match m with x :: _ => (x =? c_caret) = false | [] => True end) ->
  (mr = true -> match m with x :: _ => (x =? c_rb) = false | [] => True end) ->
  collp cls (CB mc mr) m = collp cls (CB false false) m.
Proof.
  intros H1 H2. destruct m as [|x m]; [reflexivity|]. cbn [collp andb].
  assert (E1 : mc && (x =? c_caret) = false) by (destruct mc; [now rewrite H1|reflexivity]).
  assert (E2 : mr && (x =? c_rb) = false) by (destruct mr; [now rewrite H2|reflexivity]).
  now rewrite E1, E2.
Qed.
(* Where GNU's reading accepts a pattern (every symbol naming an ordinary character), the engine, reading what spell_collating
   wrote, finds the same text outside bracket expressions and a bracket expression wherever GNU's reading has one. *)
Theorem readers_agree cls : forall fuel p o, gnu_out fuel cls p = Some o -> EngOut cls (collp cls CT p) o.
Proof.
  induction fuel as [|f IH]; intros p o H; [discriminate|]. cbn [gnu_out] in H.
  destruct p as [|c s']; [injection H as <-; constructor|].
  cbn [collp]. destruct (c =? c_bs) eqn:Eb.
  { apply Nat.eqb_eq in Eb. subst c. destruct s' as [|x r]; [injection H as <-; cbn [collp]; constructor|].
    destruct (gnu_out f cls r) as [o'|] eqn:Eo; [|discriminate]. injection H as <-. cbn [collp]. constructor. now apply IH. }
  destruct (c =? c_lb) eqn:El.
  { apply Nat.eqb_eq in El. subst c. cbv zeta in H.
    set (m1 := strip1 c_caret s') in *. set (m2 := strip1 c_rb m1) in *.
    destruct (members_strict (S (length m2)) cls _ m2) as [rest|] eqn:Em; [|discriminate].
    destruct (gnu_out f cls rest) as [o'|] eqn:Eo; [|discriminate]. injection H as <-.
    destruct (bracket_agree cls _ _ _ _ Em) as (body & Hc1 & He1 & Hh).
    apply (EO_br cls _ (collp cls CT rest) o'); [|now apply IH].
    (* behind the "[": "^" and a "]" first are copied, then the members *)
    assert (Hm2 : m2 <> []) by (intros E; rewrite E in Em; cbn in Em; discriminate).
    unfold after_open. subst m1 m2.
    destruct s' as [|x s1]; [cbn in Hm2; congruence|]. cbn [strip1] in *.
    destruct (x =? c_caret) eqn:Ex.
    - apply Nat.eqb_eq in Ex. subst x. cbn [collp andb]. change (c_caret =? c_caret) with true. cbv iota. cbn [strip1].
      change (c_caret =? c_caret) with true. cbv iota.
      destruct s1 as [|y s2]; [cbn in Hm2; congruence|]. cbn [strip1] in *.
      destruct (y =? c_rb) eqn:Ey.
      + apply Nat.eqb_eq in Ey. subst y. cbn [collp andb]. change (c_rb =? c_rb) with true. cbv iota. cbn [strip1].
        change (c_rb =? c_rb) with true. cbv iota. rewrite Hc1. apply He1.
      + rewrite (collp_flags cls false true (y :: s2)) by (intros; try discriminate; exact Ey || exact I).
        rewrite Hc1. destruct (Hh y s2 eq_refl) as (h & b' & -> & Hk). cbn [app strip1].
        rewrite (head_kind_not c_rb h y (or_intror (or_introl eq_refl)) Ey Hk). change (h :: b' ++ collp cls CT rest) with ((h :: b') ++ collp cls CT rest). apply He1.
    - cbn [strip1] in *. destruct (x =? c_rb) eqn:Ey.
      + apply Nat.eqb_eq in Ey. subst x. cbn [collp andb]. change (c_rb =? c_caret) with false. change (c_rb =? c_rb) with true. cbv iota.
        cbn [strip1]. change (c_rb =? c_caret) with false. cbv iota. cbn [strip1]. change (c_rb =? c_rb) with true. cbv iota.
        rewrite Hc1. apply He1.
      + rewrite (collp_flags cls true true (x :: s1)) by (intros; assumption).
        rewrite Hc1. destruct (Hh x s1 eq_refl) as (h & b' & -> & Hk). cbn [app strip1].
        rewrite (head_kind_not c_caret h x (or_intror (or_intror eq_refl)) Ex Hk). cbn [strip1].
        rewrite (head_kind_not c_rb h x (or_intror (or_introl eq_refl)) Ey Hk).
        change (h :: b' ++ collp cls CT rest) with ((h :: b') ++ collp cls CT rest). apply He1. }
  destruct (gnu_out f cls s') as [o'|] eqn:Eo; [|discriminate]. injection H as <-.
  apply EO_ch; [exact Eb|exact El|now apply IH].
Qed.

(* what that reading accepts, check_classes accepts *)
Lemma gnu_out_accepts cls : forall fuel p o, gnu_out fuel cls p = Some o -> classes_scan fuel cls p = true.
Proof.
  induction fuel as [|f IH]; intros p o H; [reflexivity|]. cbn [gnu_out classes_scan] in *.
  destruct p as [|c s']; [reflexivity|].
  destruct (c =? c_bs).
  { destruct s' as [|x r]; [destruct f; reflexivity|]. cbn [tl].
    destruct (gnu_out f cls r) as [o'|] eqn:Eo; [|discriminate]. now apply (IH _ o'). }
  destruct (c =? c_lb).
  { cbv zeta in *. unfold strip1 in H.
    set (m1 := match s' with x :: r => if x =? c_caret then r else s' | [] => s' end) in *.
    set (m2 := match m1 with x :: r => if x =? c_rb then r else m1 | [] => m1 end) in *.
    destruct (members_strict (S (length m2)) cls _ m2) as [rest|] eqn:Em; [|discriminate].
    rewrite (strict_ok _ _ _ _ _ Em).
    destruct (gnu_out f cls rest) as [o'|] eqn:Eo; [|discriminate]. now apply (IH _ o'). }
  destruct (gnu_out f cls s') as [o'|] eqn:Eo; [|discriminate]. now apply (IH _ o').
Qed.
