(* has_side_effects of the built tree = "some token is an action primary"; quit cuts. *)
Require Import Walk Expr Find.
From Coq Require Import List Arith Bool Lia.
Import ListNotations.

Definition is_action (t : tok) : bool :=
  match t with TP p => match pk p with KAction => true | _ => false end | _ => false end.
Definition anyside (l : list matcher) : bool := existsb side l.

Lemma side_and l : side (MAnd l) = anyside l.
Proof. cbn. induction l as [|x l IH]; [reflexivity|]. cbn. now rewrite IH. Qed.
Lemma side_or l : side (MOr l) = anyside l.
Proof. cbn. induction l as [|x l IH]; [reflexivity|]. cbn. now rewrite IH. Qed.
Lemma side_list l : side (MList l) = anyside l.
Proof. cbn. induction l as [|x l IH]; [reflexivity|]. cbn. now rewrite IH. Qed.
Lemma side_b_and l : side (b_and l) = anyside l.
Proof. destruct l as [|x [|y l]]; unfold b_and; rewrite ?side_and; cbn; now rewrite ?orb_false_r. Qed.
Lemma side_b_or l : side (b_or l) = anyside l.
Proof. destruct l as [|x [|y l]]; unfold b_or; rewrite ?side_or; cbn; now rewrite ?orb_false_r. Qed.
Lemma side_b_list l : side (b_list l) = anyside l.
Proof. destruct l as [|x [|y l]]; unfold b_list; rewrite ?side_list; cbn; now rewrite ?orb_false_r. Qed.
Lemma side_mnot b m : side (mnot b m) = side m.
Proof. destruct b; reflexivity. Qed.
Lemma anyside_app a b : anyside (a ++ b) = anyside a || anyside b.
Proof. apply existsb_app. Qed.

Definition sside (s : sigma) : bool := anyside (ors s) || anyside (ands s) || anyside (cur s).
Lemma side_finish s : side (finish_sigma s) = sside s.
Proof.
  unfold finish_sigma, sside. rewrite side_b_list, anyside_app. cbn [anyside existsb].
  rewrite side_b_or, anyside_app. cbn [anyside existsb]. rewrite side_b_and.
  fold (anyside (ors s)) (anyside (ands s)) (anyside (cur s)).
  destruct (anyside (ors s)), (anyside (ands s)), (anyside (cur s)); reflexivity.
Qed.
Lemma sside_push m s : sside (push m s) = sside s || side m.
Proof.
  unfold sside, push. cbn [ors ands cur]. rewrite anyside_app. cbn.
  destruct (anyside (ors s)), (anyside (ands s)), (anyside (cur s)), (side m); reflexivity.
Qed.
Lemma sside_new_or s : sside (new_or s) = sside s.
Proof.
  unfold sside, new_or. cbn [ors ands cur]. rewrite anyside_app. cbn. rewrite side_b_and.
  fold (anyside (cur s)). destruct (anyside (ors s)), (anyside (ands s)), (anyside (cur s)); reflexivity.
Qed.
Lemma sside_new_list s : sside (new_list s) = sside s.
Proof.
  unfold sside, new_list. cbn [ors ands cur]. rewrite anyside_app. cbn. rewrite side_b_or, anyside_app.
  cbn. rewrite side_b_and. fold (anyside (cur s)) (anyside (ands s)).
  destruct (anyside (ors s)), (anyside (ands s)), (anyside (cur s)); reflexivity.
Qed.

Definition stside (st : state) : bool := sside (sg st) || existsb (fun f => sside (fst f)) (stack st).

Theorem run_side : forall ts st m, run st ts = Ok m -> side m = stside st || existsb is_action ts.
Proof.
  induction ts as [|t rest IH]; intros st m H.
  - cbn [run] in H. destruct (stack st) eqn:E; [|discriminate]. injection H as <-.
    unfold stside. rewrite E. cbn. rewrite side_finish. now rewrite !orb_false_r.
  - cbn [run] in H. destruct (step st t rest) as [st'|] eqn:Es; [|discriminate].
    apply IH in H. rewrite H. cbn [existsb]. clear H IH.
    unfold step in Es. destruct t as [p| | | | | |].
    + injection Es as <-. unfold stside. cbn [sg stack]. rewrite sside_push, side_mnot. cbn [side is_action].
      destruct (pk p); cbn; destruct (sside (sg st)), (existsb _ (stack st)), (existsb is_action rest); reflexivity.
    + destruct (more rest); [|discriminate]. injection Es as <-. reflexivity.
    + destruct (more rest && nonempty (cur (sg st))); [|discriminate]. injection Es as <-. reflexivity.
    + destruct (more rest && nonempty (cur (sg st))); [|discriminate]. injection Es as <-.
      unfold stside. cbn [sg stack]. now rewrite sside_new_or.
    + destruct (more rest && nonempty (cur (sg st))); [|discriminate]. injection Es as <-.
      unfold stside. cbn [sg stack]. now rewrite sside_new_list.
    + injection Es as <-. unfold stside. cbn [sg stack existsb fst is_action].
      unfold sside at 1. cbn. destruct (sside (sg st)), (existsb _ (stack st)); reflexivity.
    + destruct (stack st) as [|[s0 i0] stk] eqn:E; [discriminate|]. destruct (prevL st); [discriminate|].
      injection Es as <-. unfold stside. rewrite E. cbn [sg stack existsb fst is_action].
      rewrite sside_push, side_mnot, side_finish.
      destruct (sside s0), (sside (sg st)), (existsb _ stk); reflexivity.
Qed.

(* -print is added to the whole expression iff no token is an action, however nested, negated or unreachable *)
Theorem default_print ts m0 : run st0 ts = Ok m0 ->
  build_top ts = Ok (if existsb is_action ts then m0 else MAnd [m0; MPrim print_prim]).
Proof.
  intros H. unfold build_top. rewrite H. apply run_side in H. rewrite H. reflexivity.
Qed.

(* once an entry's evaluation sets quit, no later entry is evaluated *)
Theorem quit_cuts tvf m pre rp d b post :
  Forall (fun e => match e with Ent p _ _ => quit (snd (eval (tvf p) m io0)) = false | Err _ => True end) pre ->
  quit (snd (eval (tvf rp) m io0)) = true ->
  eval_visits tvf m (pre ++ Ent rp d b :: post) =
  (fst (eval_visits tvf m pre) ++ [(rp, trace (snd (eval (tvf rp) m io0)))], true).
Proof.
  intros Hpre Hq. induction pre as [|e pre IH]; cbn [app eval_visits].
  - now rewrite Hq.
  - inversion Hpre as [|? ? He Hp]; subst. destruct e as [p d' b'|p]; [|now apply IH].
    rewrite He. rewrite (IH Hp). destruct (eval_visits tvf m pre). reflexivity.
Qed.

(* and no later starting point is processed *)
Theorem quit_cuts_roots c m tvf n roots l : find_root c tvf m n = (l, true) ->
  find_roots c m ((tvf, n) :: roots) = [l].
Proof. intros H. cbn [find_roots]. now rewrite H. Qed.

(* the wrapper evaluates -print exactly when the expression is true (and did not quit) *)
Require Import Expr3.
Lemma eqv_prim p : eqv (MPrim p) (EP p).
Proof.
  intros tv s Hq. unfold O, obs. cbn [eval evalE]. destruct (eval_prim tv p s) as [b s']. reflexivity.
Qed.
Theorem wrapper_sem m e : eqv m e -> eqv (MAnd [m; MPrim print_prim]) (EAnd e (EP print_prim)).
Proof. intros H. apply eqv_and_cons; [exact H|]. apply eqv_one_and. apply eqv_prim. Qed.

(* starting points are independent: without quit, one result per root, in order *)
Theorem find_roots_independent c m roots :
  Forall (fun r => snd (find_root c (fst r) m (snd r)) = false) roots ->
  find_roots c m roots = map (fun r => fst (find_root c (fst r) m (snd r))) roots.
Proof.
  induction roots as [|[tvf n] roots IH]; intros H; [reflexivity|]. inversion H as [|? ? Hq Hs]; subst.
  cbn [find_roots map fst snd] in *. destruct (find_root c tvf m n) as [l q]. cbn [snd fst] in *. subst q.
  now rewrite IH.
Qed.
