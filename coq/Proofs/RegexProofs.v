Require Import Regex.
From Coq Require Import List Arith Bool Lia.
Import ListNotations.

Lemma nullable_spec r : nullable r = true <-> L r [].
Proof.
  induction r as [| |f|a IHa b IHb|a IHa b IHb|a IHa]; cbn.
  - split; [discriminate|inversion 1].
  - split; [constructor|reflexivity].
  - split; [discriminate|inversion 1].
  - rewrite andb_true_iff, IHa, IHb. split.
    + intros [Ha Hb]. change (@nil char) with (@nil char ++ []). now constructor.
    + intros H. inversion H; subst.
      match goal with E : _ ++ _ = [] |- _ => apply app_eq_nil in E as [-> ->] end. auto.
  - rewrite orb_true_iff, IHa, IHb. split; [intros [H|H]; [now apply L_altl|now apply L_altr]|inversion 1; auto].
  - split; [constructor|reflexivity].
Qed.

Lemma star_cons_gen r w : L r w -> forall a c s, r = Star a -> w = c :: s ->
  exists s1 s2, s = s1 ++ s2 /\ L a (c :: s1) /\ L (Star a) s2.
Proof.
  induction 1 as [| | | | | |a' s' t' Hs _ Ht IHt]; intros a0 c0 s0 Er Ew; try discriminate.
  injection Er as ->. destruct s' as [|x s'].
  - cbn in Ew. eapply IHt; eauto.
  - cbn in Ew. injection Ew as -> <-. exists s', t'. auto.
Qed.
Lemma star_cons a c s : L (Star a) (c :: s) -> exists s1 s2, s = s1 ++ s2 /\ L a (c :: s1) /\ L (Star a) s2.
Proof. intros H. eapply star_cons_gen; eauto. Qed.

Lemma deriv_spec r : forall c s, L (deriv c r) s <-> L r (c :: s).
Proof.
  induction r as [| |f|a IHa b IHb|a IHa b IHb|a IHa]; intros c s; cbn [deriv].
  - split; inversion 1.
  - split; inversion 1.
  - destruct (f c) eqn:E; split.
    + inversion 1; subst. now constructor.
    + inversion 1; subst. constructor.
    + inversion 1.
    + inversion 1; subst. congruence.
  - assert (Hcat : L (Cat (deriv c a) b) s -> L (Cat a b) (c :: s)).
    { intros H. inversion H as [| |? ? s1 t1 H1 H2| | | |]; subst. apply IHa in H1. change (c :: s1 ++ t1) with ((c :: s1) ++ t1). now constructor. }
    assert (Hsplit : L (Cat a b) (c :: s) -> (exists s1 t1, s = s1 ++ t1 /\ L a (c :: s1) /\ L b t1) \/ (L a [] /\ L b (c :: s))).
    { intros H. inversion H as [| |? ? s1 t1 H1 H2| | | |]; subst. destruct s1 as [|x s1].
      - right. match goal with E : [] ++ _ = _ |- _ => cbn in E; subst end. auto.
      - left. match goal with E : (_ :: _) ++ _ = _ |- _ => cbn in E; injection E as -> <- end. eauto. }
    destruct (nullable a) eqn:Na.
    + split.
      * intros H. inversion H as [| | |? ? ? Hl|? ? ? Hr| |]; subst; [auto|]. apply IHb in Hr. apply nullable_spec in Na.
        change (c :: s) with ([] ++ c :: s). now constructor.
      * intros H. destruct (Hsplit H) as [(s1 & t1 & -> & H1 & H2)|[H1 H2]].
        -- apply L_altl. constructor; [now apply IHa|assumption].
        -- apply L_altr. now apply IHb.
    + split; [exact Hcat|].
      intros H. destruct (Hsplit H) as [(s1 & t1 & -> & H1 & H2)|[H1 H2]].
      * constructor; [now apply IHa|assumption].
      * apply nullable_spec in H1. congruence.
  - split.
    + inversion 1; subst; [apply L_altl; now apply IHa|apply L_altr; now apply IHb].
    + inversion 1; subst; [apply L_altl; now apply IHa|apply L_altr; now apply IHb].
  - split.
    + intros H. inversion H as [| |? ? s1 t1 H1 H2| | | |]; subst. apply IHa in H1.
      change (c :: s1 ++ t1) with ((c :: s1) ++ t1). now constructor.
    + intros H. destruct (star_cons _ _ _ H) as (s1 & s2 & -> & H1 & H2). constructor; [now apply IHa|assumption].
Qed.

(* a verified decision procedure for "the whole path belongs to the language of the pattern" *)
Theorem matches_spec r s : matches r s = true <-> L r s.
Proof.
  revert r. induction s as [|c s IH]; intros r; cbn [matches].
  - apply nullable_spec.
  - rewrite IH. apply deriv_spec.
Qed.
Print Assumptions matches_spec.

Lemma assign_app cur a b : assign_types cur (a ++ b) =
  assign_types cur a ++ assign_types (fold_left (fun c t => match t with RT ty => ty | _ => c end) a cur) b.
Proof.
  revert cur. induction a as [|t a IH]; intros cur; [reflexivity|]. destruct t; cbn [app assign_types fold_left]; rewrite IH; reflexivity.
Qed.
Definition no_rt (ts : list rtok) : Prop := Forall (fun t => match t with RT _ => False | _ => True end) ts.
Lemma fold_no_rt ts cur : no_rt ts -> fold_left (fun c t => match t with RT ty => ty | _ => c end) ts cur = cur.
Proof. revert cur. induction ts as [|t ts IH]; intros cur H; [reflexivity|]. inversion H; subst. destruct t; [contradiction| |]; cbn; now apply IH. Qed.

(* a -regex uses the type named by the nearest preceding -regextype *)
Theorem nearest_preceding pre ty mid p post cur : no_rt mid ->
  In (p, ty) (assign_types cur (pre ++ RT ty :: mid ++ RX p :: post)).
Proof.
  intros H. rewrite assign_app. apply in_or_app. right. cbn [assign_types]. rewrite assign_app. apply in_or_app. right.
  rewrite fold_no_rt by assumption. cbn [assign_types]. now left.
Qed.
Theorem default_emacs mid p post : no_rt mid -> In (p, 0) (assign_types 0 (mid ++ RX p :: post)).
Proof. intros H. rewrite assign_app. apply in_or_app. right. rewrite fold_no_rt by assumption. cbn. now left. Qed.
