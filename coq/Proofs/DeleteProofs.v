Require Import Delete.
From Coq Require Import List Arith Bool Lia.
Import ListNotations.

(* ================= C10_exact ================= *)
Section NodeInd.
Variable P : node -> Prop.
Hypothesis Hf : P File.
Hypothesis Hd : forall ch, Forall (fun x => P (snd x)) ch -> P (Dir ch).
Fixpoint node_ind2 (n : node) : P n :=
  match n with
  | File => Hf
  | Dir ch => Hd ch ((fix go (l : list (name * node)) : Forall (fun x => P (snd x)) l :=
                        match l with
                        | [] => Forall_nil _
                        | (nm, y) :: l' => Forall_cons (nm, y) (node_ind2 y) (go l')
                        end) ch)
  end.
End NodeInd.

Section Proofs.
Variable M : rpath -> bool.

(* a file-system tree: sibling names are distinct *)
Fixpoint wf (n : node) : Prop :=
  match n with
  | File => True
  | Dir ch => NoDup (map fst ch) /\
              (fix all (l : list (name * node)) : Prop := match l with [] => True | (_, x) :: l' => wf x /\ all l' end) ch
  end.
Definition wf_list := fix all (l : list (name * node)) : Prop := match l with [] => True | (_, x) :: l' => wf x /\ all l' end.
Lemma wf_dir ch : wf (Dir ch) = (NoDup (map fst ch) /\ wf_list ch). Proof. reflexivity. Qed.

Definition under (rp p : rpath) : Prop := exists q, p = q ++ rp.

Lemma rp_eqb_eq a b : rp_eqb a b = true <-> a = b.
Proof.
  revert b. induction a as [|x a IH]; intros [|y b]; cbn; try (split; congruence).
  rewrite andb_true_iff, Nat.eqb_eq, IH. split; [intros [-> ->]; reflexivity|intros [= -> ->]; auto].
Qed.
Lemma mem_In p l : mem p l = true <-> In p l.
Proof.
  unfold mem. rewrite existsb_exists. split.
  - intros (x & Hx & E). apply rp_eqb_eq in E. now subst.
  - intros H. exists p. split; [exact H|now apply rp_eqb_eq].
Qed.

Definition gone_list (rp : rpath) := fix go (l : list (name * node)) : list rpath * bool :=
  match l with
  | [] => ([], true)
  | (nm, x) :: l' => let '(a, oka) := gone M (nm :: rp) x in let '(b, okb) := go l' in (a ++ b, oka && okb)
  end.
Lemma gone_dir rp ch : gone M rp (Dir ch) =
  let r := gone_list rp ch in if M rp && snd r then (fst r ++ [rp], true) else (fst r, false).
Proof. reflexivity. Qed.
Lemma gone_list_cons rp nm x l : gone_list rp ((nm, x) :: l) =
  (fst (gone M (nm :: rp) x) ++ fst (gone_list rp l), snd (gone M (nm :: rp) x) && snd (gone_list rp l)).
Proof. cbn [gone_list]. destruct (gone M (nm :: rp) x), (gone_list rp l). reflexivity. Qed.

Definition posto_list (rp : rpath) := fix go (l : list (name * node)) : list event :=
  match l with [] => [] | (nm, x) :: l' => posto (nm :: rp) x ++ go l' end.
Lemma posto_dir rp ch : posto rp (Dir ch) = posto_list rp ch ++ [EDir rp (map fst ch)].
Proof. reflexivity. Qed.

(* suffix facts *)
Lemma under_refl rp : under rp rp. Proof. now exists []. Qed.
Lemma under_cons k rp p : under (k :: rp) p -> under rp p.
Proof. intros [q ->]. exists (q ++ [k]). now rewrite <- app_assoc. Qed.
Lemma under_len rp p : under rp p -> length rp <= length p.
Proof. intros [q ->]. rewrite app_length. lia. Qed.
Lemma app_same_len {A} (q1 q2 a b : list A) : q1 ++ a = q2 ++ b -> length a = length b -> a = b.
Proof.
  intros E L. assert (Hl : length q1 = length q2).
  { apply (f_equal (@length A)) in E. rewrite !app_length in E. lia. }
  revert q2 E Hl. induction q1 as [|x q1 IH]; intros [|y q2] E Hl; cbn in *; try discriminate; [exact E|].
  injection E as _ E. apply (IH q2); [exact E|lia].
Qed.
Lemma under_sibling k1 k2 rp p : under (k1 :: rp) p -> under (k2 :: rp) p -> k1 = k2.
Proof.
  intros [q1 ->] [q2 E]. apply app_same_len in E; [|reflexivity]. now injection E.
Qed.
Lemma not_under_self k rp : ~ under (k :: rp) rp.
Proof. intros H. apply under_len in H. cbn in H. lia. Qed.

Definition fresh (rp : rpath) (s : dst) : Prop := forall p, In p (removed s) -> ~ under rp p.

Definition Good (n : node) : Prop := forall rp s, wf n -> fresh rp s ->
  removed (delete_run M rp n s) = removed s ++ fst (gone M rp n) /\
  Forall (under rp) (fst (gone M rp n)) /\
  (snd (gone M rp n) = true <-> In rp (fst (gone M rp n))).

Lemma delete_run_app (l1 l2 : list event) s : fold_left (delete_step M) (l1 ++ l2) s = fold_left (delete_step M) l2 (fold_left (delete_step M) l1 s).
Proof. apply fold_left_app. Qed.

(* the children of a directory, processed in order *)
Lemma children_good rp : forall l, Forall (fun x => Good (snd x)) l -> NoDup (map fst l) -> wf_list l ->
  forall s, (forall k, In k (map fst l) -> fresh (k :: rp) s) ->
  removed (fold_left (delete_step M) (posto_list rp l) s) = removed s ++ fst (gone_list rp l) /\
  Forall (fun p => exists k, In k (map fst l) /\ under (k :: rp) p) (fst (gone_list rp l)) /\
  (snd (gone_list rp l) = true <-> forall k, In k (map fst l) -> In (k :: rp) (fst (gone_list rp l))).
Proof.
  induction l as [|[nm x] l IH]; intros HG Hnd Hwf s Hfr.
  - cbn. rewrite app_nil_r. repeat split; auto.
  - inversion HG as [|? ? Gx Gl]; subst. cbn [map fst] in Hnd. inversion Hnd as [|? ? Hnin Hnd']; subst.
    destruct Hwf as [Wx Wl]. cbn [snd] in Gx.
    destruct (Gx (nm :: rp) s Wx (Hfr nm (or_introl eq_refl))) as (R1 & U1 & S1).
    cbn [posto_list]. rewrite delete_run_app. fold (delete_run M (nm :: rp) x s).
    set (s1 := delete_run M (nm :: rp) x s) in *.
    assert (Hfr1 : forall k, In k (map fst l) -> fresh (k :: rp) s1).
    { intros k Hk p Hp Hu. rewrite R1 in Hp. apply in_app_or in Hp as [Hp|Hp].
      - exact (Hfr k (or_intror Hk) p Hp Hu).
      - rewrite Forall_forall in U1. specialize (U1 p Hp).
        assert (nm = k) by (eapply under_sibling; eauto). subst. contradiction. }
    destruct (IH Gl Hnd' Wl s1 Hfr1) as (R2 & U2 & S2).
    rewrite gone_list_cons. cbn [fst snd]. split; [|split].
    + rewrite R2, R1. now rewrite app_assoc.
    + apply Forall_app. split.
      * eapply Forall_impl; [|exact U1]. intros p Hp. exists nm. split; [now left|exact Hp].
      * eapply Forall_impl; [|exact U2]. intros p (k & Hk & Hp). exists k. split; [now right|exact Hp].
    + rewrite andb_true_iff, S1, S2. split.
      * intros [H1 H2] k [<-|Hk]; apply in_or_app; [left; exact H1|right; now apply H2].
      * intros H. split.
        -- specialize (H nm (or_introl eq_refl)). apply in_app_or in H as [H|H]; [exact H|].
           rewrite Forall_forall in U2. destruct (U2 _ H) as (k & Hk & Hu).
           assert (k = nm) by (eapply under_sibling; [exact Hu|apply under_refl]). subst. contradiction.
        -- intros k Hk. specialize (H k (or_intror Hk)). apply in_app_or in H as [H|H]; [|exact H].
           rewrite Forall_forall in U1. specialize (U1 _ H).
           assert (nm = k) by (eapply under_sibling; [exact U1|apply under_refl]). subst. contradiction.
Qed.

Theorem delete_good : forall n, Good n.
Proof.
  induction n as [|ch IH] using node_ind2; intros rp s Hwf Hfr.
  - (* a file or link: unlinked iff matched *)
    unfold delete_run. cbn [posto fold_left delete_step gone].
    destruct (M rp); cbn [removed fst snd].
    + repeat split; [constructor; [apply under_refl|constructor]|now left].
    + rewrite app_nil_r. repeat split; [constructor|discriminate|intros []].
  - rewrite wf_dir in Hwf. destruct Hwf as [Hnd Hwl].
    assert (Hfrk : forall k, In k (map fst ch) -> fresh (k :: rp) s).
    { intros k _ p Hp Hu. apply (Hfr p Hp). eapply under_cons; eauto. }
    destruct (children_good rp ch IH Hnd Hwl s Hfrk) as (R & U & S).
    unfold delete_run. rewrite posto_dir, delete_run_app. cbn [fold_left].
    set (s1 := fold_left (delete_step M) (posto_list rp ch) s) in *.
    rewrite gone_dir. cbn zeta.
    assert (Hempty : forallb (fun k => mem (k :: rp) (removed s1)) (map fst ch) = snd (gone_list rp ch)).
    { apply eq_true_iff_eq. rewrite forallb_forall, S. split; intros H k Hk.
      - specialize (H k Hk). apply mem_In in H. rewrite R in H. apply in_app_or in H as [H|H]; [|exact H].
        exfalso. apply (Hfr _ H). apply under_cons with k. apply under_refl.
      - apply mem_In. rewrite R. apply in_or_app. right. now apply H. }
    assert (Hu : Forall (under rp) (fst (gone_list rp ch))).
    { eapply Forall_impl; [|exact U]. intros p (k & _ & Hp). eapply under_cons; eauto. }
    assert (Hnot : ~ In rp (fst (gone_list rp ch))).
    { intros H. rewrite Forall_forall in U. destruct (U _ H) as (k & _ & Hk). exact (not_under_self _ _ Hk). }
    cbn [delete_step]. rewrite Hempty.
    destruct (M rp); cbn [andb].
    + destruct (snd (gone_list rp ch)); cbn [removed fst snd].
      * rewrite R, <- app_assoc. repeat split.
        -- apply Forall_app. split; [exact Hu|constructor; [apply under_refl|constructor]].
        -- intros _. apply in_or_app. right. now left.
      * repeat split; [exact R|exact Hu|discriminate|intros H; contradiction].
    + cbn [fst snd]. repeat split; [exact R|exact Hu|discriminate|intros H; contradiction].
Qed.

(* -delete removes exactly the matched entries (a directory only once everything below it is gone), in -depth order,
   and nothing else *)
Theorem delete_exact n : wf n ->
  removed (delete_run M [] n {| removed := []; failed := false |}) = fst (gone M [] n).
Proof.
  intros H. destruct (delete_good n [] {| removed := []; failed := false |} H) as (R & _); [intros p []|exact R].
Qed.

(* ---- the failure flag: set exactly when some matched directory could not be emptied ---- *)
(* a matched directory below (or at) rp whose entries are not all gone *)
Fixpoint stuck (rp : rpath) (n : node) : bool :=
  match n with
  | File => false
  | Dir ch => (fix go (l : list (name * node)) : bool :=
                 match l with [] => false | (nm, x) :: l' => stuck (nm :: rp) x || go l' end) ch
              || (M rp && negb (snd (gone_list rp ch)))
  end.
Definition stuck_list (rp : rpath) := fix go (l : list (name * node)) : bool :=
  match l with [] => false | (nm, x) :: l' => stuck (nm :: rp) x || go l' end.
Lemma stuck_dir rp ch : stuck rp (Dir ch) = stuck_list rp ch || (M rp && negb (snd (gone_list rp ch))).
Proof. reflexivity. Qed.

Definition FailOk (n : node) : Prop := forall rp s, wf n -> fresh rp s ->
  failed (delete_run M rp n s) = failed s || stuck rp n.

Lemma children_fail rp : forall l, Forall (fun x => FailOk (snd x)) l -> NoDup (map fst l) -> wf_list l ->
  forall s, (forall k, In k (map fst l) -> fresh (k :: rp) s) ->
  failed (fold_left (delete_step M) (posto_list rp l) s) = failed s || stuck_list rp l.
Proof.
  induction l as [|[nm x] l IH]; intros HF Hnd Hwf s Hfr.
  - cbn. now rewrite orb_false_r.
  - inversion HF as [|? ? Fx Fl]; subst. cbn [map fst] in Hnd. inversion Hnd as [|? ? Hnin Hnd']; subst.
    destruct Hwf as [Wx Wl]. cbn [snd] in Fx.
    destruct (delete_good x (nm :: rp) s Wx (Hfr nm (or_introl eq_refl))) as (R1 & U1 & _).
    cbn [posto_list]. rewrite delete_run_app. fold (delete_run M (nm :: rp) x s).
    set (s1 := delete_run M (nm :: rp) x s) in *.
    assert (Hfr1 : forall k, In k (map fst l) -> fresh (k :: rp) s1).
    { intros k Hk p Hp Hu. rewrite R1 in Hp. apply in_app_or in Hp as [Hp|Hp].
      - exact (Hfr k (or_intror Hk) p Hp Hu).
      - rewrite Forall_forall in U1. specialize (U1 p Hp).
        assert (nm = k) by (eapply under_sibling; eauto). subst. contradiction. }
    rewrite (IH Fl Hnd' Wl s1 Hfr1). unfold s1. rewrite (Fx (nm :: rp) s Wx (Hfr nm (or_introl eq_refl))).
    cbn [stuck_list]. now rewrite orb_assoc.
Qed.

Theorem fail_ok : forall n, FailOk n.
Proof.
  induction n as [|ch IH] using node_ind2; intros rp s Hwf Hfr.
  - unfold delete_run. cbn [posto fold_left delete_step stuck]. destruct (M rp); cbn [failed]; now rewrite orb_false_r.
  - rewrite wf_dir in Hwf. destruct Hwf as [Hnd Hwl].
    assert (Hfrk : forall k, In k (map fst ch) -> fresh (k :: rp) s).
    { intros k _ p Hp Hu. apply (Hfr p Hp). eapply under_cons; eauto. }
    assert (HG : Forall (fun x => Good (snd x)) ch) by (apply Forall_forall; intros y _; apply delete_good).
    destruct (children_good rp ch HG Hnd Hwl s Hfrk) as (R & U & S).
    pose proof (children_fail rp ch IH Hnd Hwl s Hfrk) as F.
    unfold delete_run. rewrite posto_dir, delete_run_app. cbn [fold_left].
    set (s1 := fold_left (delete_step M) (posto_list rp ch) s) in *.
    assert (Hempty : forallb (fun k => mem (k :: rp) (removed s1)) (map fst ch) = snd (gone_list rp ch)).
    { apply eq_true_iff_eq. rewrite forallb_forall, S. split; intros H k Hk.
      - specialize (H k Hk). apply mem_In in H. rewrite R in H. apply in_app_or in H as [H|H]; [|exact H].
        exfalso. apply (Hfr _ H). apply under_cons with k. apply under_refl.
      - apply mem_In. rewrite R. apply in_or_app. right. now apply H. }
    rewrite stuck_dir. cbn [delete_step]. rewrite Hempty.
    destruct (M rp); cbn [andb].
    + destruct (snd (gone_list rp ch)); cbn [failed negb]; rewrite ?F, ?orb_false_r, ?orb_true_r; reflexivity.
    + now rewrite F, orb_false_r.
Qed.
(* find's exit status reports a failure exactly when some matched directory could not be emptied; the walk goes on either way
   (delete_exact holds whatever fails) *)
Theorem delete_failure n : wf n ->
  failed (delete_run M [] n {| removed := []; failed := false |}) = stuck [] n.
Proof. intros H. rewrite (fail_ok n [] {| removed := []; failed := false |} H); [reflexivity|intros p []]. Qed.

(* nothing that was not matched is ever removed *)
Theorem gone_matched : forall n rp, Forall (fun p => M p = true) (fst (gone M rp n)).
Proof.
  induction n as [|ch IH] using node_ind2; intros rp.
  - cbn. destruct (M rp) eqn:E; cbn; [constructor; [exact E|constructor]|constructor].
  - rewrite gone_dir. cbn zeta.
    assert (Hl : Forall (fun p => M p = true) (fst (gone_list rp ch))).
    { induction ch as [|[nm x] ch IHch]; [constructor|]. inversion IH as [|? ? Hx Hl]; subst.
      rewrite gone_list_cons. cbn [fst]. apply Forall_app. split; [apply Hx|now apply IHch]. }
    destruct (M rp) eqn:E; cbn [andb]; [|exact Hl].
    destruct (snd (gone_list rp ch)); cbn [fst]; [|exact Hl].
    apply Forall_app. split; [exact Hl|constructor; [exact E|constructor]].
Qed.

(* "a directory only when empty (its matched children having been removed first)": the flag of [gone] says that everything at
   and below [rp] is removed, and then the removed entries are the whole -depth sequence below [rp], children before their
   directory; the entry [rp] itself is removed exactly in that case *)
Definition ev_path (e : event) : rpath := match e with EFile p => p | EDir p _ => p end.
Theorem gone_all_below : forall n rp, snd (gone M rp n) = true -> fst (gone M rp n) = map ev_path (posto rp n).
Proof.
  induction n as [|ch IH] using node_ind2; intros rp.
  - cbn. destruct (M rp); cbn; [reflexivity|discriminate].
  - rewrite gone_dir, posto_dir. cbn zeta.
    assert (Hl : snd (gone_list rp ch) = true -> fst (gone_list rp ch) = map ev_path (posto_list rp ch)).
    { induction ch as [|[nm x] ch IHch]; [reflexivity|]. inversion IH as [|? ? Hx Hl]; subst.
      rewrite gone_list_cons. cbn [fst snd]. intros E. apply andb_true_iff in E as [E1 E2].
      change (posto_list rp ((nm, x) :: ch)) with (posto (nm :: rp) x ++ posto_list rp ch).
      rewrite map_app. f_equal; [now apply Hx|now apply IHch]. }
    destruct (M rp && snd (gone_list rp ch)) eqn:E; cbn [fst snd]; [|discriminate].
    intros _. apply andb_true_iff in E as [_ E]. rewrite map_app. cbn. now rewrite Hl.
Qed.
Theorem gone_under : forall n rp, Forall (under rp) (fst (gone M rp n)).
Proof.
  induction n as [|ch IH] using node_ind2; intros rp.
  - cbn. destruct (M rp); cbn; [constructor; [apply under_refl|constructor]|constructor].
  - rewrite gone_dir. cbn zeta.
    assert (Hl : Forall (under rp) (fst (gone_list rp ch))).
    { induction ch as [|[nm x] ch IHch]; [constructor|]. inversion IH as [|? ? Hx Hl]; subst.
      rewrite gone_list_cons. cbn [fst]. apply Forall_app. split; [|now apply IHch].
      eapply Forall_impl; [|apply Hx]. intros p. apply under_cons. }
    destruct (M rp && snd (gone_list rp ch)); cbn [fst]; [|exact Hl].
    apply Forall_app. split; [exact Hl|constructor; [apply under_refl|constructor]].
Qed.
Lemma gone_list_strictly_under rp ch : Forall (fun p => exists k, under (k :: rp) p) (fst (gone_list rp ch)).
Proof.
  induction ch as [|[nm x] ch IHch]; [constructor|]. rewrite gone_list_cons. cbn [fst]. apply Forall_app. split; [|exact IHch].
  eapply Forall_impl; [|apply gone_under]. intros p Hp. now exists nm.
Qed.
Theorem gone_self_iff : forall n rp, In rp (fst (gone M rp n)) <-> snd (gone M rp n) = true.
Proof.
  intros [|ch] rp.
  - cbn. destruct (M rp); cbn; intuition discriminate.
  - rewrite gone_dir. cbn zeta.
    assert (N : ~ In rp (fst (gone_list rp ch))).
    { intros Hin. pose proof (gone_list_strictly_under rp ch) as F. rewrite Forall_forall in F.
      destruct (F _ Hin) as [k Hk]. exact (not_under_self _ _ Hk). }
    destruct (M rp && snd (gone_list rp ch)); cbn [fst snd].
    + split; [reflexivity|]. intros _. apply in_or_app. right. now left.
    + split; [intros H; contradiction|discriminate].
Qed.
End Proofs.
Check delete_exact.
Print Assumptions delete_exact.
