Require Import Regex RegexProofs RegexBT.
From Coq Require Import List Arith Bool Lia.
Import ListNotations.

Lemma bt_star {A} a s (k : list char -> option A) : bt (Star a) s k = star_loop a k (length s) s.
Proof. reflexivity. Qed.
Lemma star_loop_S {A} a (k : list char -> option A) n s :
  star_loop a k (S n) s = match bt a s (fun s' => if length s' <? length s then star_loop a k n s' else None) with
                          | Some x => Some x | None => k s end.
Proof. reflexivity. Qed.

(* soundness: a success of the engine is a split of the subject into a word of the language and a rest the
   continuation accepts *)
Theorem bt_sound {A} : forall r s (k : list char -> option A) x, bt r s k = Some x ->
  exists s1 s2, s = s1 ++ s2 /\ L r s1 /\ k s2 = Some x.
Proof.
  induction r as [| |f|a IHa b IHb|a IHa b IHb|a IHa]; intros s k x H.
  - discriminate.
  - exists [], s. repeat split; [constructor|exact H].
  - cbn in H. destruct s as [|c s']; [discriminate|]. destruct (f c) eqn:E; [|discriminate].
    exists [c], s'. repeat split; [now constructor|exact H].
  - cbn [bt] in H. apply IHa in H as (u & s' & -> & Hu & H). apply IHb in H as (v & s2 & -> & Hv & H).
    exists (u ++ v), s2. rewrite <- app_assoc. repeat split; [now constructor|exact H].
  - cbn [bt] in H. destruct (bt a s k) as [y|] eqn:E.
    + injection H as ->. apply IHa in E as (s1 & s2 & -> & H1 & H2). exists s1, s2. repeat split; [now apply L_altl|exact H2].
    + apply IHb in H as (s1 & s2 & -> & H1 & H2). exists s1, s2. repeat split; [now apply L_altr|exact H2].
  - rewrite bt_star in H. remember (length s) as n eqn:En. clear En. revert s x H.
    induction n as [|n IHn]; intros s x H.
    + cbn in H. exists [], s. repeat split; [constructor|exact H].
    + rewrite star_loop_S in H.
      destruct (bt a s _) as [y|] eqn:E.
      * injection H as ->. apply IHa in E as (u & s' & -> & Hu & E).
        destruct (length s' <? length (u ++ s')); [|discriminate].
        apply IHn in E as (v & s2 & -> & Hv & E). exists (u ++ v), s2. rewrite <- app_assoc.
        repeat split; [now apply L_star1|exact E].
      * exists [], s. repeat split; [constructor|exact H].
Qed.

(* completeness: if some split is acceptable the engine succeeds (on the first one in its search order) *)
Lemma star_complete {A} a (k : list char -> option A)
  (IHa : forall s1 s2 (k' : list char -> option A), L a s1 -> k' s2 <> None -> bt a (s1 ++ s2) k' <> None) :
  forall r s1, L r s1 -> r = Star a -> forall s2 n, k s2 <> None -> length (s1 ++ s2) <= n -> star_loop a k n (s1 ++ s2) <> None.
Proof.
  induction 1 as [| | | | |a'|a' u v Hu _ Hv IHv]; intros Er s2 n Hk Hn; try discriminate.
  - cbn [app]. destruct n as [|n]; [exact Hk|]. rewrite star_loop_S. destruct (bt a s2 _); [discriminate|exact Hk].
  - injection Er as ->. destruct u as [|c u].
    + cbn [app]. apply IHv; auto.
    + destruct n as [|n]; [cbn in Hn; lia|]. rewrite star_loop_S. rewrite <- app_assoc.
      assert (Hne : bt a ((c :: u) ++ v ++ s2)
                      (fun s' => if length s' <? length ((c :: u) ++ v ++ s2) then star_loop a k n s' else None) <> None).
      { apply IHa; [exact Hu|].
        assert (Hlt : (length (v ++ s2) <? length ((c :: u) ++ v ++ s2)) = true) by (apply Nat.ltb_lt; cbn; rewrite !app_length; lia).
        rewrite Hlt. apply IHv; auto. rewrite <- app_assoc in Hn. cbn in Hn. rewrite !app_length in *. lia. }
      destruct (bt a _ _); [discriminate|contradiction].
Qed.

Theorem bt_complete {A} : forall r s1 s2 (k : list char -> option A), L r s1 -> k s2 <> None -> bt r (s1 ++ s2) k <> None.
Proof.
  induction r as [| |f|a IHa b IHb|a IHa b IHb|a IHa]; intros s1 s2 k HL Hk.
  - inversion HL.
  - inversion HL; subst. exact Hk.
  - inversion HL; subst. cbn. match goal with E : f _ = true |- _ => rewrite E end. exact Hk.
  - inversion HL as [| |? ? u v Hu Hv| | | |]; subst. rewrite <- app_assoc. cbn [bt]. apply IHa; [exact Hu|]. now apply IHb.
  - cbn [bt]. inversion HL; subst.
    + pose proof (IHa s1 s2 k ltac:(assumption) Hk). destruct (bt a (s1 ++ s2) k); [discriminate|contradiction].
    + destruct (bt a (s1 ++ s2) k); [discriminate|]. now apply IHb.
  - rewrite bt_star. eapply star_complete; eauto.
Qed.

(* ---- the three versions of the code ---- *)
(* repaired: pattern followed by the end-of-text anchor = the whole path is in the language *)
Theorem regex_is_match_language r s : regex_is_match r s = true <-> L r s.
Proof.
  unfold regex_is_match, is_match_with. split.
  - destruct (bt r s k_end) as [[|c rest]|] eqn:E; try discriminate. intros _.
    apply bt_sound in E as (s1 & s2 & -> & H1 & H2). unfold k_end in H2. destruct s2; [|discriminate]. now rewrite app_nil_r.
  - intros H. pose proof (bt_complete r s [] k_end H ltac:(discriminate)) as Hc. rewrite app_nil_r in Hc.
    destruct (bt r s k_end) as [rest|] eqn:E; [|contradiction].
    apply bt_sound in E as (s1 & s2 & _ & _ & H2). unfold k_end in H2. destruct s2; [|discriminate]. now injection H2 as <-.
Qed.

(* "$" is as good as long as the path contains no newline *)
Lemma k_dollar_cases s2 x : k_dollar s2 = Some x -> x = s2 /\ (s2 = [] \/ s2 = [10]).
Proof.
  unfold k_dollar. destruct s2 as [|c [|d s2]].
  - intros H. injection H as <-. auto.
  - destruct c as [|[|[|[|[|[|[|[|[|[|[|c]]]]]]]]]]]; try discriminate. intros H. injection H as <-. auto.
  - destruct c as [|[|[|[|[|[|[|[|[|[|[|c]]]]]]]]]]]; discriminate.
Qed.

Theorem dollar_sound r s : is_match_with k_dollar r s = true -> L r s.
Proof.
  unfold is_match_with. destruct (bt r s k_dollar) as [[|c rest]|] eqn:E; try discriminate. intros _.
  apply bt_sound in E as (s1 & s2 & -> & H1 & H2). apply k_dollar_cases in H2 as [<- _]. now rewrite app_nil_r.
Qed.

Theorem dollar_without_newline r s : ~ In 10 s -> (is_match_with k_dollar r s = true <-> L r s).
Proof.
  intros Hnl. split; [apply dollar_sound|].
  intros H. unfold is_match_with. pose proof (bt_complete r s [] k_dollar H ltac:(discriminate)) as Hc. rewrite app_nil_r in Hc.
  destruct (bt r s k_dollar) as [rest|] eqn:E; [|contradiction].
  apply bt_sound in E as (s1 & s2 & -> & _ & H2). apply k_dollar_cases in H2 as [-> [->| ->]]; [reflexivity|].
  exfalso. apply Hnl, in_or_app. right. now left.
Qed.

(* the two defects the property exposed, as refutations of the statement for the earlier versions of the code *)
Definition chr (c : nat) : re := Chr (Nat.eqb c).
Lemma unanchored_refuted : exists r s, L r s /\ is_match_with k_none r s = false.          (* (a|ab) on "ab" *)
Proof.
  exists (Alt (chr 97) (Cat (chr 97) (chr 98))), [97; 98]. split; [|reflexivity].
  apply L_altr. change [97; 98] with ([97] ++ [98]). constructor; now constructor.
Qed.
Lemma dollar_refuted : exists r s, L r s /\ is_match_with k_dollar r s = false.            (* (a|a\n) on "a\n" *)
Proof.
  exists (Alt (chr 97) (Cat (chr 97) (chr 10))), [97; 10]. split; [|reflexivity].
  apply L_altr. change [97; 10] with ([97] ++ [10]). constructor; now constructor.
Qed.
