From Coq Require Import List Arith Bool Lia Sorting.Sorted.
Import ListNotations.
Require Import Walk WalkGraph.

(* ================= the ancestors stack is the chain of ancestors ================= *)
Definition sorted (st : list (nat * ident)) : Prop := StronglySorted (fun a b => fst b < fst a) st.
Definition below (st : list (nat * ident)) (d : nat) : Prop := sorted st /\ Forall (fun a => fst a < d) st.
Definition atleast (d : nat) (st : list (nat * ident)) : Prop := Forall (fun a => d <= fst a) st.

Lemma pop_below st d : Forall (fun a => fst a < d) st -> pop_to st d = st.
Proof.
  destruct st as [|[d' i] st]; intros H; [reflexivity|].
  cbn [pop_to]. inversion H as [|? ? Hd _]; subst; cbn in Hd.
  destruct (Nat.leb_spec d d'); [lia|reflexivity].
Qed.

Lemma pop_extra extra base d : atleast d extra -> Forall (fun a => fst a < d) base -> pop_to (extra ++ base) d = base.
Proof.
  induction extra as [|[d' i] extra IH]; intros He Hb; cbn [app].
  - apply pop_below; exact Hb.
  - inversion He as [|? ? Hd He']; subst; cbn in Hd. cbn [pop_to].
    destruct (Nat.leb_spec d d'); [|lia]. apply IH; assumption.
Qed.

Lemma existsb_snd base id : existsb (fun a : nat * ident => snd a =? id) base = existsb (Nat.eqb id) (map snd base).
Proof.
  induction base as [|a base IH]; [reflexivity|]. cbn [existsb map]. rewrite IH, (Nat.eqb_sym (snd a) id). reflexivity.
Qed.

Lemma itree_ind' (P : itree -> Prop) (HL : P TL) (HD : forall id ch, Forall P ch -> P (TD id ch)) : forall t, P t.
Proof.
  fix IH 1. intros [|id ch]; [exact HL|]. apply HD.
  induction ch as [|t ch IHch]; [constructor|constructor; [apply IH|exact IHch]].
Qed.

Definition sub_ok (t : itree) : Prop :=
  forall d base extra rest, below base d -> atleast d extra -> sorted (extra ++ base) ->
  exists extra', anc_run (extra ++ base) (preorder d t ++ rest) = verdicts (map snd base) t ++ anc_run (extra' ++ base) rest
                 /\ atleast d extra' /\ sorted (extra' ++ base).

Lemma children_ok ch : Forall sub_ok ch ->
  forall d base extra rest, below base d -> atleast d extra -> sorted (extra ++ base) ->
  exists extra', anc_run (extra ++ base) (flat_map (preorder d) ch ++ rest)
                 = flat_map (verdicts (map snd base)) ch ++ anc_run (extra' ++ base) rest
                 /\ atleast d extra' /\ sorted (extra' ++ base).
Proof.
  induction 1 as [|t ch Ht _ IH]; intros d base extra rest Hb He Hs.
  - exists extra. cbn. auto.
  - cbn [flat_map]. rewrite <- !app_assoc.
    destruct (Ht d base extra (flat_map (preorder d) ch ++ rest) Hb He Hs) as (e1 & R1 & He1 & Hs1).
    destruct (IH d base e1 rest Hb He1 Hs1) as (e2 & R2 & He2 & Hs2).
    exists e2. rewrite R1, R2, <- app_assoc. auto.
Qed.

Lemma atleast_weaken d extra : atleast (S d) extra -> atleast d extra.
Proof. unfold atleast. intros H. eapply Forall_impl; [|exact H]. cbn. intros; lia. Qed.

Lemma below_weaken base d : below base d -> below base (S d).
Proof. intros [Hs Hf]. split; [exact Hs|]. eapply Forall_impl; [|exact Hf]. cbn. intros; lia. Qed.

Lemma sub_ok_all : forall t, sub_ok t.
Proof.
  induction t as [|id ch IH] using itree_ind'; intros d base extra rest Hb He Hs.
  - exists extra. cbn. auto.
  - cbn [preorder app anc_run anc_step].
    rewrite (pop_extra extra base d He (proj2 Hb)), existsb_snd.
    cbn [verdicts]. destruct (existsb (Nat.eqb id) (map snd base)) eqn:E.
    + (* its own ancestor: nothing is pushed *)
      destruct (children_ok ch IH (S d) base [] rest (below_weaken _ _ Hb) (Forall_nil _) (proj1 Hb)) as (e & R & He' & Hs').
      cbn [app] in R. exists e. cbn [app]. rewrite R. split; [reflexivity|]. split; [apply atleast_weaken; exact He'|exact Hs'].
    + assert (Hb2 : below ((d, id) :: base) (S d)).
      { destruct Hb as [Hsb Hfb]. split.
        - constructor; [exact Hsb|]. eapply Forall_impl; [|exact Hfb]. cbn. intros; lia.
        - constructor; [cbn; lia|]. eapply Forall_impl; [|exact Hfb]. cbn. intros; lia. }
      destruct (children_ok ch IH (S d) ((d, id) :: base) [] rest Hb2 (Forall_nil _) (proj1 Hb2)) as (e & R & He' & Hs').
      cbn [app map snd] in R. exists (e ++ [(d, id)]). cbn [app]. rewrite <- app_assoc. cbn [app].
      rewrite R. split; [reflexivity|]. split; [|exact Hs'].
      apply Forall_app. split; [apply atleast_weaken; exact He'|constructor; [cbn; lia|constructor]].
Qed.

(* what process_dir's stack answers along the pre-order stream of ANY finite tree of identities is
   what the recursive definition answers: a directory is refused iff one of the directories it is
   below, and that was entered, has its identity *)
Theorem stack_is_ancestors : forall t, anc_run [] (preorder 0 t) = verdicts [] t.
Proof.
  intros t.
  destruct (sub_ok_all t 0 [] [] []) as (e & R & _ & _).
  - split; constructor.
  - constructor.
  - constructor.
  - cbn [app map] in R. rewrite !app_nil_r in R. rewrite R. reflexivity.
Qed.

(* ================= the cut unfolding is total ================= *)
Definition ent_in (U : list ident) (e : gent) : Prop :=
  match e with GDir id _ => In id U | _ => True end.
Definition closed (g : graph) (U : list ident) : Prop :=
  forall id ch, listing g id = Some ch -> forall x, In x ch -> ent_in U (snd x).

Lemma map_opt_some {A B} (f : A -> option B) l : (forall x, In x l -> f x <> None) -> map_opt f l <> None.
Proof.
  induction l as [|x l IH]; intros H; cbn [map_opt]; [discriminate|].
  destruct (f x) eqn:E; [|exfalso; apply (H x); [left; reflexivity|exact E]].
  destruct (map_opt f l) eqn:E2; [discriminate|]. exfalso. apply IH; [|reflexivity]. intros y Hy. apply H. right; exact Hy.
Qed.

Lemma existsb_eqb_In id l : existsb (Nat.eqb id) l = true <-> In id l.
Proof.
  rewrite existsb_exists. split.
  - intros (x & Hx & E). apply Nat.eqb_eq in E. subst; exact Hx.
  - intros H. exists id. split; [exact H|apply Nat.eqb_refl].
Qed.

Theorem unfold_total : forall g xdev rootdev U, closed g U ->
  forall fuel anc top e, NoDup anc -> incl anc U -> ent_in U e -> length U - length anc < fuel ->
  unfold g true xdev rootdev fuel anc top e <> None.
Proof.
  intros g xdev rootdev U Hc. induction fuel as [|f IH]; intros anc top e Hnd Hincl He Hf; [lia|].
  destruct e as [| | |id dev]; cbn [unfold]; try discriminate.
  cbn [andb]. destruct (existsb (Nat.eqb id) anc) eqn:Ea; [discriminate|].
  destruct (xdev && negb top && negb (dev =? rootdev)); [discriminate|].
  destruct (listing g id) as [ch|] eqn:El; [|discriminate].
  assert (Hni : ~ In id anc). { intros Hi. apply existsb_eqb_In in Hi. congruence. }
  assert (Hnd2 : NoDup (id :: anc)) by (constructor; assumption).
  assert (Hincl2 : incl (id :: anc) U). { intros x [->|Hx]; [exact He|apply Hincl; exact Hx]. }
  pose proof (NoDup_incl_length Hnd2 Hincl2) as Hlen. cbn [length] in Hlen.
  match goal with |- match ?m with _ => _ end <> None => destruct m as [l|] eqn:Em end; [discriminate|].
  exfalso. revert Em. apply map_opt_some. intros x Hx.
  destruct (unfold g true xdev rootdev f (id :: anc) false (snd x)) eqn:Eu; [discriminate|].
  exfalso. revert Eu. apply IH; [exact Hnd2|exact Hincl2|exact (Hc id ch El x Hx)|cbn [length]; lia].
Qed.

(* ================= no directory is entered below itself ================= *)
Fixpoint chain_ok (anc : list ident) (t : inode) : Prop :=
  match t with
  | ID id ch => ~ In id anc /\
      (fix all (l : list (name * inode)) : Prop :=
         match l with [] => True | x :: l' => chain_ok (id :: anc) (snd x) /\ all l' end) ch
  | ILoop id => In id anc
  | _ => True
  end.

Theorem unfold_chain_ok : forall g xdev rootdev fuel anc top e t,
  unfold g true xdev rootdev fuel anc top e = Some t -> chain_ok anc t.
Proof.
  intros g xdev rootdev. induction fuel as [|f IH]; intros anc top e t H.
  - destruct e as [| | |id dev]; cbn [unfold] in H; try (injection H as <-; exact I).
    cbn [andb] in H. destruct (existsb (Nat.eqb id) anc) eqn:Ea.
    { injection H as <-. cbn. apply existsb_eqb_In; exact Ea. }
    destruct (xdev && negb top && negb (dev =? rootdev)); [injection H as <-; exact I|].
    destruct (listing g id); [discriminate|injection H as <-].
    cbn. split; [intros Hi; apply existsb_eqb_In in Hi; congruence|auto].
  - destruct e as [| | |id dev]; cbn [unfold] in H; try (injection H as <-; exact I).
    cbn [andb] in H. destruct (existsb (Nat.eqb id) anc) eqn:Ea.
    { injection H as <-. cbn. apply existsb_eqb_In; exact Ea. }
    destruct (xdev && negb top && negb (dev =? rootdev)); [injection H as <-; exact I|].
    destruct (listing g id) as [ch|]; [|injection H as <-; cbn; split; [intros Hi; apply existsb_eqb_In in Hi; congruence|auto]].
    match type of H with match ?m with _ => _ end = _ => destruct m as [l|] eqn:Em end; [|discriminate].
    injection H as <-. cbn [chain_ok]. split.
    { intros Hi. apply existsb_eqb_In in Hi. congruence. }
    revert l Em. induction ch as [|x ch IHch]; intros l Em; cbn [map_opt] in Em.
    + injection Em as <-. exact I.
    + destruct (unfold g true xdev rootdev f (id :: anc) false (snd x)) as [tx|] eqn:Eu; [|discriminate].
      match type of Em with match ?m with _ => _ end = _ => destruct m as [l'|] eqn:Em' end; [|discriminate].
      injection Em as <-. split; [cbn [snd]; exact (IH _ _ _ _ Eu)|exact (IHch l' eq_refl)].
Qed.
