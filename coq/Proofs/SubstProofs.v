Require Import PathModel ExecSingle.
From Coq Require Import List Arith Bool Lia.
Import ListNotations.

Lemma split_cons2 a b s acc : split_braces (a :: b :: s) acc =
  if (a =? LB) && (b =? RB) then acc :: split_braces s [] else split_braces (b :: s) (acc ++ [a]).
Proof. reflexivity. Qed.
Lemma subst_cons2 path a b s : subst path (a :: b :: s) =
  if (a =? LB) && (b =? RB) then path ++ subst path s else a :: subst path (b :: s).
Proof. reflexivity. Qed.

Lemma split_ne s acc : split_braces s acc <> [].
Proof.
  revert acc. induction s as [|a s IH]; intros acc; [discriminate|].
  destruct s as [|b s']; [discriminate|]. cbn [split_braces].
  destruct ((a =? LB) && (b =? RB)); [discriminate|apply IH].
Qed.

Lemma render_acc path : forall n s acc, length s <= n -> join path (split_braces s acc) = acc ++ subst path s.
Proof.
  induction n as [|n IH]; intros s acc Hn.
  - destruct s; [cbn; now rewrite app_nil_r|cbn in Hn; lia].
  - destruct s as [|a [|b s']].
    + cbn. now rewrite app_nil_r.
    + reflexivity.
    + rewrite split_cons2, subst_cons2. destruct ((a =? LB) && (b =? RB)).
      * assert (E : forall l, l <> [] -> join path (acc :: l) = acc ++ path ++ join path l) by (intros [|x l] H; [congruence|reflexivity]).
        rewrite E by apply split_ne. rewrite IH by (cbn in Hn; lia). reflexivity.
      * rewrite IH by (cbn in Hn |- *; lia). now rewrite <- app_assoc.
Qed.

(* C09: textual and total substitution *)
Theorem render_is_subst tmpl path : render tmpl path = subst path tmpl.
Proof. unfold render. now rewrite (render_acc path (length tmpl)). Qed.

(* no file name can change the argument structure: one template, one argument *)
Theorem argv_shape (tmpls : list (list byte)) path : length (map (fun t => render t path) tmpls) = length tmpls.
Proof. apply map_length. Qed.
Print Assumptions render_is_subst.

(* no "{}" in the template *)
Fixpoint subst_free (s : list byte) : bool :=
  match s with
  | a :: ((b :: _) as t) => negb ((a =? LB) && (b =? RB)) && subst_free t
  | _ => true
  end.
Lemma subst_literal path : forall s, subst_free s = true -> subst path s = s.
Proof.
  intros s. remember (length s) as n eqn:En. revert s En.
  induction n as [n IH] using lt_wf_ind. intros s En H.
  destruct s as [|a [|b s']]; [reflexivity|reflexivity|].
  rewrite subst_cons2. cbn [subst_free] in H. apply andb_true_iff in H as [H1 H2].
  apply negb_true_iff in H1. rewrite H1. f_equal. apply (IH (length (b :: s'))); [subst n; cbn; lia|reflexivity|exact H2].
Qed.
Theorem render_literal tmpl path : subst_free tmpl = true -> render tmpl path = tmpl.
Proof. intros H. rewrite render_is_subst. now apply subst_literal. Qed.
