Require Import Batch BatchProofs XArgs XArgsProofs.
From Coq Require Import List NArith Bool Lia.
Import ListNotations.
Local Open Scope N_scope.

Definition nonfatal (o : child) : bool := match classify o with inl _ => true | inr _ => false end.
Definition fatal_code (o : child) : N := match classify o with inr e => status_err e | inl _ => 0 end.
Definition cres_of (o : child) : cres := match classify o with inl r => r | inr _ => Success end.
Definition exit_zero (o : child) : bool := match o with Exit c => c =? 0 | _ => false end.

Lemma fold_combine_failure l : fold_left XArgs.combine l Failure = Failure.
Proof. induction l; cbn; auto. Qed.

Lemma status_fold l : forallb nonfatal l = true ->
  status_ok (fold_left XArgs.combine (map cres_of l) Success) = if forallb exit_zero l then 0 else 123.
Proof.
  induction l as [|o l IH]; intros H; [reflexivity|]. cbn [forallb] in H. apply andb_true_iff in H as [Ho Hl].
  cbn [map fold_left forallb].
  assert (Hr : cres_of o = if exit_zero o then Success else Failure).
  { unfold nonfatal in Ho. unfold cres_of. destruct o as [code| | |]; cbn [classify exit_zero] in *; try discriminate.
    destruct (code =? 0); [reflexivity|]. destruct (code =? 255); [discriminate|reflexivity]. }
  rewrite Hr. destruct (exit_zero o); cbn [XArgs.combine andb]; [now apply IH|].
  now rewrite fold_combine_failure.
Qed.

Section Exec.
Variable c : config.
(* a batch that really is run: not the empty batch of -I, and (with -I) one whose substituted command line passes the system limits *)
Definition runs (b : list arg) : Prop := c_replace c = false \/ (b <> [] /\ subst_fits c b = true).

Lemma runs_cond b : runs b -> c_replace c && (match b with [] => true | _ => false end) = false.
Proof. intros [->|[H _]]; [reflexivity|]. destruct b; [congruence|apply andb_false_r]. Qed.
Lemma runs_cond2 b : runs b -> c_replace c && negb (subst_fits c b) = false.
Proof. intros [->|[_ H]]; [reflexivity|]. rewrite H. apply andb_false_r. Qed.

Lemma exec_nonfatal st b o os : runs b -> outs st = o :: os -> nonfatal o = true ->
  exec c st b = inl {| res := XArgs.combine (res st) (cres_of o); outs := os; log := log st ++ [b] |}.
Proof.
  intros Hb E H. unfold exec. rewrite (runs_cond b Hb), (runs_cond2 b Hb). rewrite E. cbn [next_out tl].
  unfold nonfatal, cres_of in *. destruct (classify o); [reflexivity|discriminate].
Qed.

Lemma exec_fatal st b o os : runs b -> outs st = o :: os -> nonfatal o = false ->
  exec c st b = inr (fatal_code o, log st ++ [b]).
Proof.
  intros Hb E H. unfold exec. rewrite (runs_cond b Hb), (runs_cond2 b Hb). rewrite E. cbn [next_out].
  unfold nonfatal, fatal_code in *. destruct (classify o); [discriminate|reflexivity].
Qed.

(* no fatal outcome among the consumed ones: every batch runs, in order *)
Lemma exec_all_run : forall bs st, Forall runs bs -> (length bs <= length (outs st))%nat ->
  forallb nonfatal (firstn (length bs) (outs st)) = true ->
  exec_all c st bs = inl {| res := fold_left XArgs.combine (map cres_of (firstn (length bs) (outs st))) (res st);
                            outs := skipn (length bs) (outs st); log := log st ++ bs |}.
Proof.
  induction bs as [|b bs IH]; intros st Hr Hl Hn.
  - cbn. rewrite app_nil_r. destruct st; reflexivity.
  - inversion Hr as [|? ? Hb Hbs]; subst.
    destruct (outs st) as [|o os] eqn:E; [cbn in Hl; lia|].
    cbn [length firstn forallb] in Hn. apply andb_true_iff in Hn as [Ho Hn].
    cbn [exec_all]. rewrite (exec_nonfatal st b o os Hb E Ho).
    rewrite IH; cbn [outs res log]; [|exact Hbs|cbn in Hl; lia|exact Hn].
    cbn [length firstn skipn map fold_left]. now rewrite <- app_assoc.
Qed.

(* the first fatal outcome ends the run: exactly the invocations up to it were started *)
Lemma exec_all_fatal : forall pre o post bs st, Forall runs bs -> outs st = pre ++ o :: post ->
  forallb nonfatal pre = true -> nonfatal o = false -> (length pre < length bs)%nat ->
  exec_all c st bs = inr (fatal_code o, log st ++ firstn (S (length pre)) bs).
Proof.
  induction pre as [|p pre IH]; intros o post bs st Hr E Hp Ho Hl.
  - destruct bs as [|b bs]; [cbn in Hl; lia|]. inversion Hr; subst. cbn [exec_all app] in *.
    rewrite (exec_fatal st b o post) by assumption. reflexivity.
  - destruct bs as [|b bs]; [cbn in Hl; lia|]. inversion Hr; subst. cbn [forallb] in Hp. apply andb_true_iff in Hp as [Hp0 Hp].
    cbn [exec_all]. rewrite (exec_nonfatal st b p (pre ++ o :: post)) by assumption.
    rewrite (IH o post bs); cbn [outs log]; try assumption; [|reflexivity|cbn in Hl; lia].
    cbn [length firstn]. now rewrite <- app_assoc.
Qed.
End Exec.

(* ---------- greedy batching in terms of the declarative limits ---------- *)
Fixpoint greedy_lim (ok : list arg -> Prop) (bs : list (list arg)) : Prop :=
  match bs with
  | [] => True
  | b :: bs' => ok b /\ b <> [] /\
                match bs' with [] => True | b' :: _ => match b' with a :: _ => ~ ok (b ++ [a]) | [] => False end end /\
                greedy_lim ok bs'
  end.

Definition noninit (a : arg) : Prop := is_initial a = false.

Lemma greedy_to_lim tmpl ok :
  (forall b, Forall noninit b -> (fits arg (list limiter) tmpl accf b <-> ok b)) ->
  forall bs, Forall (Forall noninit) bs -> greedy arg (list limiter) tmpl accf bs -> greedy_lim ok bs.
Proof.
  intros Heq. induction bs as [|b bs IH]; intros Hn Hg; [exact I|].
  inversion Hn as [|? ? Hb Hbs]; subst. destruct Hg as (Hf & Hne & Hm & Hg).
  cbn [greedy_lim]. repeat split; auto.
  - now apply Heq.
  - destruct bs as [|b' bs]; [exact I|]. destruct b' as [|a b']; [exact Hm|].
    intros Hok. apply Hm. apply Heq; [|exact Hok].
    apply Forall_app. split; [exact Hb|]. inversion Hbs as [|? ? Hb' _]; subst. inversion Hb'; subst. now constructor.
Qed.

Lemma Forall_concat {A} (P : A -> Prop) (bs : list (list A)) : Forall P (concat bs) -> Forall (Forall P) bs.
Proof.
  induction bs as [|b bs IH]; intros H; [constructor|]. cbn in H. apply Forall_app in H as [H1 H2].
  constructor; auto.
Qed.

(* every argument of every batch comes from the input *)
Lemma process_incl A S tmpl acc fatal r : forall args ls cur p done (P : A -> Prop),
  Forall (Forall P) done -> Forall P cur -> Forall P args ->
  match process A S tmpl acc fatal r ls cur p args done with
  | Ran bs | TooLarge bs => Forall (Forall P) bs end.
Proof.
  induction args as [|a rest IH]; intros ls cur p done P Hd Hc Ha.
  - cbn. destruct (negb r || p); [apply Forall_app; split; [assumption|now constructor]|assumption].
  - inversion Ha; subst. cbn [process]. destruct (acc ls a).
    + apply IH; try assumption. apply Forall_app; split; [assumption|now constructor].
    + destruct (fatal ls a); [assumption|].
      assert (Hd' : Forall (Forall P) (if p then done ++ [cur] else done)).
      { destruct p; [apply Forall_app; split; [assumption|now constructor]|assumption]. }
      destruct (acc tmpl a); [|exact Hd'].
      apply IH; try assumption. now constructor.
Qed.

(* ---------- the run as a whole ---------- *)
Section Top.
Variable c : config.
Variable tmpl : list limiter.
Hypothesis Htmpl : charge_init (limiters0 c) (charged c) = Some tmpl.
Notation P args := (process arg (list limiter) tmpl accf (fatalf c) (c_r c) tmpl [] false args []).

Lemma run_factor args os : c_replace c = false ->
  xargs_run c args false os = finish c (P args) {| res := Success; outs := os; log := [] |}.
Proof. intros Hnr. unfold xargs_run. rewrite Htmpl. now apply process_x_factor. Qed.

Lemma tmpl_eq : tmpl = map (advi (charged c)) (limiters0 c).
Proof. now apply charge_init_spec. Qed.

Lemma fits_within b : Forall noninit b -> (fits arg (list limiter) tmpl accf b <-> within_limits c b).
Proof.
  intros Hb. rewrite <- all_ok_within, <- tmpl_eq. apply fits_iff_limits; [|exact Hb].
  eapply charge_init_ok; [apply limiters0_ok|exact Htmpl].
Qed.

(* the batches, whatever the children do *)
Theorem batches_spec args : Forall noninit args ->
  match P args with
  | Ran bs => concat bs = args /\ (args <> [] -> greedy_lim (within_limits c) bs) /\
              (args = [] -> bs = if c_r c then [] else [[]])
  | TooLarge bs => exists pre a post, args = pre ++ a :: post /\ greedy_lim (within_limits c) bs /\
              (~ within_limits c [a] \/
               (c_x c = true /\ (c_n c <> None \/ c_L c <> None) /\ exists b, concat bs ++ b = pre /\ ~ within_limits c (b ++ [a])))
  end.
Proof.
  intros Hn.
  pose proof (process_spec arg (list limiter) tmpl accf (fatalf c) (c_r c) args tmpl [] false []
                eq_refl ltac:(split; [discriminate|congruence]) I ltac:(congruence) I) as H.
  pose proof (process_incl arg (list limiter) tmpl accf (fatalf c) (c_r c) args tmpl [] false [] noninit
                ltac:(constructor) ltac:(constructor) Hn) as Hi.
  cbn [concat app] in H. destruct (P args) as [bs|bs].
  - destruct H as (H1 & H2 & H3). split; [exact H1|]. split; [|exact H3].
    intros Hne. eapply greedy_to_lim; [apply fits_within|exact Hi|auto].
  - destruct H as (pre & a & post & E & Hg & Hc). exists pre, a, post. split; [exact E|].
    split; [eapply greedy_to_lim; [apply fits_within|exact Hi|exact Hg]|].
    assert (Ha : noninit a).
    { rewrite E in Hn. apply Forall_app in Hn as [_ Hn]. now inversion Hn. }
    destruct Hc as [Hc|(s & b & Hs & Hf & Eb)].
    + left. intros Hw. apply Hc. apply fits_within; [now repeat constructor|exact Hw].
    + right. unfold fatalf in Hf. destruct (try_arg s a) as [|[|]] eqn:Et; try discriminate.
      apply andb_true_iff in Hf as [Hx Hnl]. split; [exact Hx|]. split.
      { destruct (c_n c), (c_L c); cbn in Hnl; try discriminate; [left|left|right]; discriminate. }
      exists b. split; [exact Eb|]. intros Hw.
      assert (Hb : Forall noninit (b ++ [a])).
      { apply Forall_app. split; [|now repeat constructor].
        rewrite E, <- Eb in Hn. apply Forall_app in Hn as [Hn _]. now apply Forall_app in Hn as [_ Hn]. }
      apply fits_within in Hw; [|exact Hb]. apply Hw. unfold fits.
      rewrite charge_app, Hs. unfold accf. now rewrite Et.
Qed.

(* either -I is not in force, or there is input (then no batch is empty) and every line, once substituted, passes the system limits *)
Definition line_fits (a : arg) : Prop := fits_system c (c_subst c (alen a)) = true.
Definition really_runs (args : list arg) : Prop :=
  c_replace c = false \/ (args <> [] /\ Forall noninit args /\ Forall line_fits args).

Lemma greedy_lim_ne ok bs : greedy_lim ok bs -> Forall (fun b => b <> []) bs.
Proof. induction bs as [|b bs IH]; intros H; [constructor|]. destruct H as (_ & Hne & _ & Hg). constructor; auto. Qed.

Lemma batches_run args : really_runs args -> Forall (runs c) (match P args with Ran bs | TooLarge bs => bs end).
Proof.
  intros [Hr|(Hne & Hn & Hf)].
  - apply Forall_forall. intros b _. now left.
  - pose proof (batches_spec args Hn) as H.
    pose proof (process_incl arg (list limiter) tmpl accf (fatalf c) (c_r c) args tmpl [] false [] line_fits
                  ltac:(constructor) ltac:(constructor) Hf) as Hl.
    fold (P args) in Hl.
    assert (Hrun : forall bs, Forall (fun b => b <> []) bs -> Forall (Forall line_fits) bs -> Forall (runs c) bs).
    { intros bs H1 H2. induction bs as [|b bs IH]; [constructor|]. inversion H1; inversion H2; subst. constructor; [|now apply IH].
      right. split; [assumption|]. destruct b as [|a b]; [congruence|]. cbn [subst_fits].
      match goal with Hb : Forall line_fits (a :: b) |- _ => now inversion Hb end. }
    destruct (P args) as [bs|bs].
    + destruct H as (_ & H & _). specialize (H Hne). apply greedy_lim_ne in H. now apply Hrun.
    + destruct H as (pre & a & post & _ & H & _). apply greedy_lim_ne in H. now apply Hrun.
Qed.

Definition batches_of (o : outcome arg) : list (list arg) := match o with Ran bs | TooLarge bs => bs end.

(* no fatal outcome: every batch is run, in order; the status is 0, 123, or 1 for an argument that cannot be placed *)
Theorem run_no_fatal args os : c_replace c = false ->
  really_runs args ->
  let bs := batches_of (P args) in
  (length bs <= length os)%nat -> forallb nonfatal (firstn (length bs) os) = true ->
  xargs_run c args false os =
  (match P args with
   | Ran _ => if forallb exit_zero (firstn (length bs) os) then 0 else 123
   | TooLarge _ => 1 end, bs).
Proof.
  intros Hnr Hrr bs Hl Hn. rewrite run_factor by exact Hnr. pose proof (batches_run args Hrr) as Hr. unfold bs in *.
  destruct (P args) as [b|b]; cbn [batches_of finish] in *.
  - rewrite (exec_all_run c); cbn [outs res log app]; try assumption. now rewrite status_fold.
  - rewrite (exec_all_run c); cbn [outs res log app]; try assumption. reflexivity.
Qed.

(* the first fatal outcome stops the run at once, with its own status *)
Theorem run_first_fatal args pre o post : c_replace c = false ->
  really_runs args ->
  let bs := batches_of (P args) in
  forallb nonfatal pre = true -> nonfatal o = false -> (length pre < length bs)%nat ->
  xargs_run c args false (pre ++ o :: post) = (fatal_code o, firstn (S (length pre)) bs).
Proof.
  intros Hnr Hrr bs Hp Ho Hl. rewrite run_factor by exact Hnr. pose proof (batches_run args Hrr) as Hr. unfold bs in *.
  destruct (P args) as [b|b]; cbn [batches_of finish] in *;
    rewrite (exec_all_fatal c pre o post); cbn [outs log app]; auto.
Qed.
End Top.

(* xargs' own errors give status 1 (when no child outcome is fatal) *)
(* -I with empty input: nothing is run, and it is not an error *)
Lemma replace_empty_input c tmpl os : charge_init (limiters0 c) (charged c) = Some tmpl ->
  c_replace c = true -> xargs_run c [] false os = (0, []).
Proof.
  intros H Hr. unfold xargs_run. rewrite H. cbn [process_x]. unfold exec. rewrite Hr. cbn.
  destruct (negb (c_r c) || false); reflexivity.
Qed.

Lemma base_too_large c args ie os : charge_init (limiters0 c) (charged c) = None ->
  xargs_run c args ie os = (1, []).
Proof. intros H. unfold xargs_run. now rewrite H. Qed.

Lemma exec_nonfatal_cases c st b : forallb nonfatal (outs st) = true ->
  (exists st', exec c st b = inl st' /\ forallb nonfatal (outs st') = true) \/ (exists l, exec c st b = inr (1, l)).
Proof.
  unfold exec. intros H. destruct (c_replace c && _); [left; eauto|].
  destruct (c_replace c && negb _); [right; eauto|]. left.
  destruct (outs st) as [|o os] eqn:E; cbn [next_out tl].
  - cbn. eexists. split; [reflexivity|]. reflexivity.
  - cbn in H. apply andb_true_iff in H as [Ho Hos]. unfold nonfatal in Ho. destruct (classify o); [|discriminate].
    eexists. split; [reflexivity|exact Hos].
Qed.

Theorem input_error_status c tmpl : forall args ls cur p st, forallb nonfatal (outs st) = true ->
  fst (process_x c tmpl ls cur p args true st) = 1.
Proof.
  induction args as [|a rest IH]; intros ls cur p st H; [reflexivity|].
  cbn [process_x]. destruct (try_arg ls a).
  { destruct (c_replace c); [|now apply IH].
    destruct (exec_nonfatal_cases c st (cur ++ [a]) H) as [(st' & E & H')|(l & E)]; rewrite E; [now apply IH|reflexivity]. }
  destruct (fatalf c ls a); [reflexivity|].
  assert (Hretry : forall st1, forallb nonfatal (outs st1) = true ->
            fst (match try_arg tmpl a with
                 | Acc ls' => if c_replace c
                              then match exec c st1 [a] with inr stop => stop | inl st'' => process_x c tmpl tmpl [] false rest true st'' end
                              else process_x c tmpl ls' [a] true rest true st1
                 | Refuse _ => (1, log st1) end) = 1).
  { intros st1 H1. destruct (try_arg tmpl a); [|reflexivity]. destruct (c_replace c); [|now apply IH].
    destruct (exec_nonfatal_cases c st1 [a] H1) as [(st' & E & H')|(l & E)]; rewrite E; [now apply IH|reflexivity]. }
  destruct p.
  - destruct (exec_nonfatal_cases c st cur H) as [(st' & E & H')|(l & E)]; rewrite E; [|reflexivity].
    now apply Hretry.
  - now apply Hretry.
Qed.

(* ---------- -I: one run per line, each as soon as the line has been read ---------- *)
Definition finish_lines (ie : bool) (r : xs + (N * list (list arg))) : N * list (list arg) :=
  match r with
  | inl st' => (if ie then 1 else status_ok (res st'), log st')
  | inr stop => stop
  end.
(* [ie]: the reader fails after the last of [args] - the lines before it have been run all the same *)
Theorem replace_eager c tmpl : c_replace c = true -> forall args ie st,
  Forall (fun a => exists ls', try_arg tmpl a = Acc ls') args ->
  process_x c tmpl tmpl [] false args ie st = finish_lines ie (exec_all c st (map (fun a => [a]) args)).
Proof.
  intros Hr. induction args as [|a rest IH]; intros ie st Hf.
  - cbn [process_x map exec_all finish_lines]. destruct ie; [reflexivity|].
    rewrite orb_false_r. destruct (negb (c_r c)); [|reflexivity].
    unfold exec. rewrite Hr. cbn. reflexivity.
  - inversion Hf as [|? ? (ls' & Ea) Hf']; subst.
    cbn [process_x map exec_all]. rewrite Ea, Hr. cbn [app].
    destruct (exec c st [a]) as [st'|stop]; [now apply IH|reflexivity].
Qed.


Lemma charge_init_spec_top c tmpl :
  charge_init (limiters0 c) (charged c) = Some tmpl -> tmpl = map (advi (charged c)) (limiters0 c).
Proof. apply charge_init_spec. Qed.

Lemma codes_table :
  map fatal_code [Exit 255; Signal; CannotRun; NotFound] = [124; 125; 126; 127] /\
  (forall code, code <> 0 -> code <> 255 -> nonfatal (Exit code) = true /\ exit_zero (Exit code) = false) /\
  nonfatal (Exit 0) = true /\ exit_zero (Exit 0) = true.
Proof.
  split; [reflexivity|]. split; [|split; reflexivity].
  intros code H0 H255. unfold nonfatal, exit_zero. cbn [classify].
  destruct (N.eqb_spec code 0); [contradiction|]. destruct (N.eqb_spec code 255); [contradiction|]. split; reflexivity.
Qed.

(* with max-args 1 (which -I forces) every batch is exactly one argument *)
Lemma singletons c bs args : c_n c = Some 1 -> greedy_lim (within_limits c) bs -> concat bs = args ->
  bs = map (fun a => [a]) args.
Proof.
  intros Hn. revert args. induction bs as [|b bs IH]; intros args Hg E.
  - cbn in E. now subst.
  - destruct Hg as (Hw & Hne & _ & Hg). destruct Hw as (Hlen & _). specialize (Hlen 1 Hn).
    unfold len in Hlen. destruct b as [|a [|a' b]]; [congruence| |cbn [length] in Hlen; rewrite !Nat2N.inj_succ in Hlen; lia].
    cbn in E. subst args. cbn [map]. f_equal. now apply IH.
Qed.

Theorem replace_one_run_per_line c tmpl args :
  charge_init (limiters0 c) (charged c) = Some tmpl -> c_n c = Some 1 -> Forall noninit args -> args <> [] ->
  match process arg (list limiter) tmpl accf (fatalf c) (c_r c) tmpl [] false args [] with
  | Ran bs => bs = map (fun a => [a]) args
  | TooLarge bs => bs = map (fun a => [a]) (concat bs)
  end.
Proof.
  intros Ht Hn Hni Hne. pose proof (batches_spec c tmpl Ht args Hni) as H.
  destruct (process _ _ _ _ _ _ _ _ _ _ _) as [bs|bs].
  - destruct H as (E & Hg & _). specialize (Hg Hne). now apply (singletons c).
  - destruct H as (pre & a & post & E & Hg & Hc). now apply (singletons c).
Qed.

(* the exit status and the invocations of a -I run: every line is run (also the ones before an input error: ie), until a fatal outcome *)
Definition line_runs (c : config) (tmpl : list limiter) (a : arg) : Prop :=
  (exists ls', try_arg tmpl a = Acc ls') /\ subst_fits c [a] = true.

Lemma single_runs c tmpl args : c_replace c = true -> Forall (line_runs c tmpl) args ->
  Forall (runs c) (map (fun a => [a]) args).
Proof.
  intros Hr H. induction H as [|a args [_ Ha] _ IH]; cbn [map]; constructor; [|exact IH].
  right. split; [discriminate|exact Ha].
Qed.

Theorem replace_no_fatal c tmpl args ie os : c_replace c = true ->
  charge_init (limiters0 c) (charged c) = Some tmpl -> Forall (line_runs c tmpl) args ->
  (length args <= length os)%nat -> forallb nonfatal (firstn (length args) os) = true ->
  xargs_run c args ie os =
  (if ie then 1 else if forallb exit_zero (firstn (length args) os) then 0 else 123, map (fun a => [a]) args).
Proof.
  intros Hr Ht Hl Hlen Hn. unfold xargs_run. rewrite Ht.
  rewrite (replace_eager c tmpl Hr) by (eapply Forall_impl; [|exact Hl]; intros a [H _]; exact H).
  rewrite (exec_all_run c); cbn [outs res log app]; rewrite ?map_length; try assumption; [|now apply (single_runs c tmpl)].
  cbn [finish_lines res log]. destruct ie; [reflexivity|]. now rewrite status_fold.
Qed.

Theorem replace_first_fatal c tmpl args ie pre o post : c_replace c = true ->
  charge_init (limiters0 c) (charged c) = Some tmpl -> Forall (line_runs c tmpl) args ->
  forallb nonfatal pre = true -> nonfatal o = false -> (length pre < length args)%nat ->
  xargs_run c args ie (pre ++ o :: post) = (fatal_code o, firstn (S (length pre)) (map (fun a => [a]) args)).
Proof.
  intros Hr Ht Hl Hp Ho Hlen. unfold xargs_run. rewrite Ht.
  rewrite (replace_eager c tmpl Hr) by (eapply Forall_impl; [|exact Hl]; intros a [H _]; exact H).
  rewrite (exec_all_fatal c pre o post); cbn [outs log app finish_lines]; rewrite ?map_length; auto.
  now apply (single_runs c tmpl).
Qed.

(* ---------- an input error: what has been run is a run of complete batches, short of at most the one being collected ---------- *)
(* the same configuration with -r: at the end of the input a command is run only if arguments are pending *)
Definition with_r (c : config) : config :=
  {| c_n := c_n c; c_L := c_L c; c_s := c_s c; c_x := c_x c; c_r := true; c_sys := c_sys c; c_init := c_init c;
     c_replace := c_replace c; c_subst := c_subst c |}.

(* The invocations made when the reader fails after [args] (an unterminated quote, a read error) are the invocations of the run
   on [args] alone under -r, short of at most one - the batch that was still being collected: no argument is run in another
   batch, twice or out of order because of the error; what is not run is the unfinished batch only. *)
Theorem input_error_invocations c tmpl : forall args ls cur p st, exists tail,
  snd (process_x (with_r c) tmpl ls cur p args false st) = snd (process_x c tmpl ls cur p args true st) ++ tail /\
  (length tail <= 1)%nat.
Proof.
  induction args as [|a rest IH]; intros ls cur p st.
  - cbn [process_x with_r c_r negb orb]. destruct p; [|exists []; rewrite app_nil_r; split; [reflexivity|cbn; lia]].
    change (exec (with_r c) st cur) with (exec c st cur). unfold exec.
    destruct (c_replace c && match cur with [] => true | _ => false end); [exists []; rewrite app_nil_r; split; [reflexivity|cbn; lia]|].
    destruct (c_replace c && negb (subst_fits c cur)); [exists []; rewrite app_nil_r; split; [reflexivity|cbn; lia]|].
    exists [cur]. destruct (classify (next_out (outs st))); cbn [snd log]; split; try reflexivity; cbn; lia.
  - cbn [process_x]. change (c_replace (with_r c)) with (c_replace c).
    change (fatalf (with_r c) ls a) with (fatalf c ls a).
    destruct (try_arg ls a).
    + destruct (c_replace c); [|apply IH].
      change (exec (with_r c) st (cur ++ [a])) with (exec c st (cur ++ [a])).
      destruct (exec c st (cur ++ [a])); [apply IH|exists []; rewrite app_nil_r; split; [reflexivity|cbn; lia]].
    + destruct (fatalf c ls a); [exists []; rewrite app_nil_r; split; [reflexivity|cbn; lia]|].
      change (exec (with_r c) st cur) with (exec c st cur).
      destruct (if p then exec c st cur else inl st) as [st'|stop]; [|exists []; rewrite app_nil_r; split; [reflexivity|cbn; lia]].
      destruct (try_arg tmpl a); [|exists []; rewrite app_nil_r; split; [reflexivity|cbn; lia]].
      destruct (c_replace c); [|apply IH].
      change (exec (with_r c) st' [a]) with (exec c st' [a]).
      destruct (exec c st' [a]); [apply IH|exists []; rewrite app_nil_r; split; [reflexivity|cbn; lia]].
Qed.
