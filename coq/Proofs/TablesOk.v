(* The tables regenerated from /repo's source are what the theorems need. *)
Require Import Tables.
From Coq Require Import List NArith.
Import ListNotations.

(* -size: c=2^0, w=2^1, b or no suffix=2^9, k=2^10, M=2^20, G=2^30 *)
Lemma size_units_ok : size_units =
  [([], 9%N); ([71], 30%N); ([77], 20%N); ([98], 9%N); ([99], 0%N); ([107], 10%N); ([119], 1%N)].
Proof. reflexivity. Qed.

(* -type letters: b c d f l p s *)
Lemma type_letters_ok : type_letters = [(98, 3); (99, 4); (100, 1); (102, 0); (108, 2); (112, 5); (115, 6)].
Proof. reflexivity. Qed.

(* -printf escapes: \0 \\ \a \b \f \n \r \t \v *)
Lemma printf_escapes_ok : printf_escapes =
  [(48, 0); (92, 92); (97, 7); (98, 8); (102, 12); (110, 10); (114, 13); (116, 9); (118, 11)].
Proof. reflexivity. Qed.

Lemma printf_directives_ok : printf_directives =
  [(65, 1); (67, 4); (68, 6); (70, 8); (71, 10); (72, 12); (77, 17); (80, 20); (83, 22); (84, 24); (85, 26); (89, 28);
   (97, 0); (98, 2); (99, 3); (100, 5); (102, 7); (103, 9); (104, 11); (105, 14); (107, 13); (108, 15); (109, 16);
   (110, 18); (112, 19); (115, 21); (116, 23); (117, 25); (121, 27)].
Proof. reflexivity. Qed.

(* xargs: 0, 123, 124, 125, 126, 127 and 1 *)
Lemma xargs_status_ok : xargs_status = [0; 123; 124; 125; 126; 127; 1]%N.
Proof. reflexivity. Qed.
