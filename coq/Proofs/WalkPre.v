Require Import Walk. From Coq Require Import List Arith Bool Lia. Import ListNotations.

Section P.
Variable c : cfg.
Variable P : rpath -> nat -> bool.
Variable fixed : bool.
Hypothesis Hfix : fixed = true.     (* the repaired code; with fixed = false a Dang node above mindepth refutes the theorem *)
Hypothesis Hpre : post c = false.

Fixpoint forest (rp : rpath) (d : nat) (l : list (name * node)) : list event :=
  match l with [] => [] | (nm, x) :: l' => pre c P (nm :: rp) d x ++ forest rp d l' end.

Lemma pre_dir rp d ch :
  pre c P rp d (Dir ch) =
  (if inr c d then [Ent rp d true] else []) ++
  (if (maxd c <=? d) || (inr c d && P rp d) then [] else forest rp (S d) ch).
Proof.
  cbn [pre]. f_equal. destruct ((maxd c <=? d) || (inr c d && P rp d)); [reflexivity|].
  induction ch as [|[nm x] ch IH]; cbn [forest]; [reflexivity|]. now rewrite IH.
Qed.

Definition stk := list (rpath * list (name * node)).

Fixpoint ssem (s : stk) : list event :=
  match s with
  | [] => []
  | (rp, ch) :: rest => (if maxd c <? length s then [] else forest rp (length s) ch) ++ ssem rest
  end.

Definition fsize (l : list (name * node)) := fold_right (fun x a => size (snd x) + a) 0 l.
Fixpoint smeasure (s : stk) : nat :=
  match s with [] => 0 | (_, ch) :: rest => S (fsize ch) + smeasure rest end.

Lemma sm_child rp nm n ch rest : smeasure ((rp, (nm, n) :: ch) :: rest) = size n + smeasure ((rp, ch) :: rest).
Proof. cbn [smeasure fsize fold_right snd]. fold (fsize ch). lia. Qed.
Lemma sm_cons rp ch rest : smeasure ((rp, ch) :: rest) = S (fsize ch) + smeasure rest.
Proof. reflexivity. Qed.
Lemma size_dir ch : size (Dir ch) = S (S (S (fsize ch))). Proof. reflexivity. Qed.
Lemma size_pos n : 1 <= size n. Proof. destruct n; cbn; lia. Qed.

Definition mk (s : stk) (d : nat) : st := {| start := None; stack := s; deferred := []; depth := d |}.

Lemma get_deferred_pre s : get_deferred c s = (s, None).
Proof. unfold get_deferred. now rewrite Hpre. Qed.

Lemma skippable_inr s : skippable c s = negb (inr c (depth s)).
Proof.
  unfold skippable, inr. destruct (Nat.ltb_spec (depth s) (mind c)), (Nat.leb_spec (mind c) (depth s)),
    (Nat.ltb_spec (maxd c) (depth s)), (Nat.leb_spec (depth s) (maxd c)); cbn; try reflexivity; lia.
Qed.


Lemma ssem_in rp ch rest : S (length rest) <= maxd c ->
  ssem ((rp, ch) :: rest) = forest rp (S (length rest)) ch ++ ssem rest.
Proof. intros H. cbn [ssem length]. destruct (Nat.ltb_spec (maxd c) (S (length rest))); [lia|reflexivity]. Qed.
Lemma ssem_out rp ch rest : maxd c < S (length rest) ->
  ssem ((rp, ch) :: rest) = ssem rest.
Proof. intros H. cbn [ssem length]. destruct (Nat.ltb_spec (maxd c) (S (length rest))); [reflexivity|lia]. Qed.

Lemma he_dang s rp d : handle_entry c fixed s rp d Dang = handle_entry c fixed s rp d Leaf.
Proof. unfold handle_entry. now rewrite Hfix. Qed.

Theorem run_stack : forall fuel s d, smeasure s <= fuel -> run c P fixed fuel (mk s d) = ssem s.
Proof.
  induction fuel as [|f IH]; intros s d Hm.
  - destruct s as [|[rp ch] rest]; [reflexivity|]. cbn in Hm. lia.
  - cbn [run]. unfold iter. cbn [start mk stack].
    destruct s as [|[rp ch] rest].
    + rewrite Hpre. reflexivity.
    + rewrite get_deferred_pre. unfold set_depth, mk. cbn [depth stack start deferred length].
      remember (S (length rest)) as L eqn:EL.
      destruct (Nat.ltb_spec (maxd c) L) as [Hgt|Hle].
      * unfold pop. cbn [stack tl start deferred depth].
        change {| start := None; stack := rest; deferred := []; depth := L |} with (mk rest L).
        rewrite IH by (cbn in Hm; lia). rewrite ssem_out by lia. reflexivity.
      * rewrite ssem_in by lia. rewrite <- EL.
        destruct ch as [|[nm n] ch'].
        -- unfold pop. cbn [stack tl start deferred depth forest app].
           change {| start := None; stack := rest; deferred := []; depth := L |} with (mk rest L).
           apply IH. cbn in Hm. lia.
        -- cbn [forest]. rewrite <- app_assoc.
           assert (Hrest : smeasure ((rp, ch') :: rest) <= f ->
                     run c P fixed f (mk ((rp, ch') :: rest) L) = forest rp L ch' ++ ssem rest).
           { intros Hf'. rewrite EL. rewrite <- ssem_in by lia. rewrite <- EL. now apply IH. } 
           destruct n as [| | |gch].
           ++ unfold handle_entry. rewrite skippable_inr. cbn [depth pre].
              change {| start := None; stack := (rp, ch') :: rest; deferred := []; depth := L |} with (mk ((rp, ch') :: rest) L).
              destruct (inr c L); cbn [negb after_event app]; rewrite Hrest by (rewrite sm_child in Hm; cbn [size] in Hm; lia); reflexivity.
           ++ rewrite he_dang. unfold handle_entry. rewrite skippable_inr. cbn [depth pre].
              change {| start := None; stack := (rp, ch') :: rest; deferred := []; depth := L |} with (mk ((rp, ch') :: rest) L).
              destruct (inr c L); cbn [negb after_event app]; rewrite Hrest by (rewrite sm_child in Hm; cbn [size] in Hm; lia); reflexivity.
           ++ unfold handle_entry. cbn [pre after_event app].
              change {| start := None; stack := (rp, ch') :: rest; deferred := []; depth := L |} with (mk ((rp, ch') :: rest) L).
              rewrite Hrest by (rewrite sm_child in Hm; cbn [size] in Hm; lia); reflexivity.
           ++ unfold handle_entry. rewrite Hpre, skippable_inr. cbn [depth start stack deferred].
              rewrite pre_dir.
              change {| start := None; stack := (nm :: rp, gch) :: (rp, ch') :: rest; deferred := []; depth := L |}
                       with (mk ((nm :: rp, gch) :: (rp, ch') :: rest) L).
              assert (Hdeep : smeasure ((nm :: rp, gch) :: (rp, ch') :: rest) <= f ->
                     run c P fixed f (mk ((nm :: rp, gch) :: (rp, ch') :: rest) L) =
                     (if maxd c <=? L then [] else forest (nm :: rp) (S L) gch) ++ forest rp L ch' ++ ssem rest).
              { intros Hf'. rewrite IH by assumption.
                destruct (Nat.leb_spec (maxd c) L).
                - rewrite ssem_out by (cbn [length]; lia). rewrite EL, <- ssem_in by lia. reflexivity.
                - rewrite ssem_in by (cbn [length]; lia). cbn [length]. rewrite <- EL.
                  rewrite EL at 2. rewrite ssem_in by lia. rewrite <- EL. reflexivity. }
              destruct (inr c L) eqn:Hin; cbn [negb andb app].
              ** f_equal. unfold after_event. rewrite Hpre, andb_false_r, andb_true_r; cbn [negb].
                 destruct (P (nm :: rp) L) eqn:HP.
                 --- rewrite orb_true_r. unfold pop, mk. cbn [stack tl start deferred depth app].
                     change {| start := None; stack := (rp, ch') :: rest; deferred := []; depth := L |} with (mk ((rp, ch') :: rest) L).
                     apply Hrest. rewrite sm_child, size_dir in Hm. lia.
                 --- rewrite orb_false_r. apply Hdeep. rewrite sm_child, size_dir in Hm. rewrite sm_cons. lia.
              ** rewrite orb_false_r. apply Hdeep. rewrite sm_child, size_dir in Hm. rewrite sm_cons. lia.
Qed.

Theorem walk_pre_correct n fuel : size n <= fuel -> run c P fixed fuel (init n) = pre c P [] 0 n.
Proof.
  destruct fuel as [|f]; [pose proof (size_pos n); lia|]. intros Hf.
  cbn [run]. unfold iter, init. cbn [start].
  destruct n as [| | |ch].
  - unfold handle_entry. rewrite skippable_inr. cbn [depth pre stack deferred].
    destruct (inr c 0); cbn [negb after_event].
    + f_equal. change {| start := None; stack := []; deferred := []; depth := 0 |} with (mk [] 0).
      now rewrite run_stack by (cbn; lia).
    + change {| start := None; stack := []; deferred := []; depth := 0 |} with (mk [] 0).
      now rewrite run_stack by (cbn; lia).
  - rewrite he_dang. unfold handle_entry. rewrite skippable_inr. cbn [depth pre stack deferred].
    destruct (inr c 0); cbn [negb after_event].
    + f_equal. change {| start := None; stack := []; deferred := []; depth := 0 |} with (mk [] 0).
      now rewrite run_stack by (cbn; lia).
    + change {| start := None; stack := []; deferred := []; depth := 0 |} with (mk [] 0).
      now rewrite run_stack by (cbn; lia).
  - unfold handle_entry. cbn [pre after_event stack deferred depth]. f_equal.
    change {| start := None; stack := []; deferred := []; depth := 0 |} with (mk [] 0).
    now rewrite run_stack by (cbn; lia).
  - unfold handle_entry. rewrite Hpre, skippable_inr. cbn [depth start stack deferred]. rewrite pre_dir.
    change {| start := None; stack := [([], ch)]; deferred := []; depth := 0 |} with (mk [([], ch)] 0).
    assert (Hd : forall f', smeasure [([], ch)] <= f' -> run c P fixed f' (mk [([], ch)] 0) = if maxd c <=? 0 then [] else forest [] 1 ch).
    { intros f' Hf'. rewrite run_stack by assumption. destruct (Nat.leb_spec (maxd c) 0).
      - rewrite ssem_out by (cbn; lia). reflexivity.
      - rewrite ssem_in by (cbn; lia). cbn [length ssem]. now rewrite app_nil_r. }
    destruct (inr c 0) eqn:Hin; cbn [negb andb app].
    + f_equal. unfold after_event. rewrite Hpre, andb_false_r, andb_true_r; cbn [negb]. destruct (P [] 0).
      * rewrite orb_true_r. unfold pop, mk. cbn [stack tl start deferred depth].
        change {| start := None; stack := []; deferred := []; depth := 0 |} with (mk [] 0).
        now rewrite run_stack by (cbn; lia).
      * rewrite orb_false_r. apply Hd. cbn in Hf |- *. fold (fsize ch) in *. lia.
    + rewrite orb_false_r. apply Hd. cbn in Hf |- *. fold (fsize ch) in *. lia.
Qed.
End P.
Check walk_pre_correct.
Print Assumptions walk_pre_correct.
