Require Import ExecLimits XArgs XArgsProofs.
From Coq Require Import NArith List Lia.
Import ListNotations.
Open Scope N_scope.

Lemma strings_app a b : strings (a ++ b) = strings a + strings b.
Proof. unfold strings. induction a as [|x a IH]; cbn [app fold_right]; [lia|]. rewrite IH. lia. Qed.

Lemma isum8 init : isum 8 init = strings init + 8 * N.of_nat (length init).
Proof. unfold isum, strings. induction init as [|l init IH]; cbn [fold_right length]; [reflexivity|]. rewrite IH. lia. Qed.
Lemma total8 b : total 8 b = strings (map alen b) + 8 * N.of_nat (length b).
Proof. unfold total, strings, cost. induction b as [|a b IH]; cbn [fold_right map length]; [reflexivity|]. rewrite IH. lia. Qed.
Lemma env_size_spec env : env_size env = strings (env_strings env) + 8 * N.of_nat (length env).
Proof.
  unfold env_size, strings, env_strings. induction env as [|[k v] env IH]; cbn [fold_right map length fst snd]; [reflexivity|].
  rewrite IH. lia.
Qed.

(* C06: whatever the xargs limiter chain lets through (within_limits' system clause), the kernel
   accepts - provided sysconf(ARG_MAX) is the kernel's own limit, the environment strings and the
   command-line arguments are each within the per-string bound, and the program's file name fits in PATH_MAX and what a #! line adds (the name
   once more, an interpreter line of at most 256 bytes) in PATH_MAX + 256 *)
Theorem xargs_batch_accepted c b rl env fn sb :
  within_limits c b -> c_sys c = sys_budget (kernel_limit rl) env -> charged c <> [] ->
  Forall (fun len => len + 1 <= MAX_ARG_STRLEN) (env_strings env) ->
  Forall (fun len => len + 1 <= MAX_ARG_STRLEN) (charged c) ->
  fn + 1 <= 4096 -> sb <= 4096 + 256 ->
  kernel_accepts rl {| argv := charged c ++ map alen b; envp := env_strings env; fname := fn; shebang := sb |}.
Proof.
  intros (_ & _ & _ & Hsys & Hsingle) Hb Hne He Hi Hf Hsb. split; cbn [argv envp fname shebang].
  - apply Forall_app. split; [|exact He]. apply Forall_app. split; [exact Hi|].
    apply Forall_map. eapply Forall_impl; [|exact Hsingle]. intros a Ha. unfold cost, max_single_arg in Ha. unfold MAX_ARG_STRLEN. lia.
  - rewrite Hb in Hsys. unfold sys_budget in Hsys. rewrite isum8, total8, env_size_spec in Hsys.
    rewrite strings_app, app_length, map_length. unfold env_strings in *. rewrite map_length in *.
    assert (Hpos : 0 < strings (charged c) + 8 * N.of_nat (length (charged c))).
    { destruct (charged c); [congruence|]. cbn [length]. lia. }
    lia.
Qed.

(* C06 with -I: the command line that is run is the substituted one, and it has been put to the system limiter *)
Lemma fold8 lens : fold_right (fun l s => l + 1 + 8 + s) 0 lens = strings lens + 8 * N.of_nat (length lens).
Proof. unfold strings. induction lens as [|l lens IH]; cbn [fold_right length]; [reflexivity|]. rewrite IH. lia. Qed.

Theorem substituted_accepted c lens rl env fn sb :
  fits_system c lens = true -> c_sys c = sys_budget (kernel_limit rl) env -> lens <> [] ->
  Forall (fun len => len + 1 <= MAX_ARG_STRLEN) (env_strings env) ->
  fn + 1 <= 4096 -> sb <= 4096 + 256 ->
  kernel_accepts rl {| argv := lens; envp := env_strings env; fname := fn; shebang := sb |}.
Proof.
  unfold fits_system. intros H Hb Hne He Hf Hsb. apply andb_prop in H as [_ H]. apply andb_prop in H as [H1 H2]. split; cbn [argv envp fname shebang].
  - apply Forall_app. split; [|exact He]. apply Forall_forall. intros l Hl.
    rewrite forallb_forall in H1. specialize (H1 l Hl). apply N.leb_le in H1. unfold max_single_arg in H1. unfold MAX_ARG_STRLEN. lia.
  - apply N.leb_le in H2. rewrite Hb, fold8 in H2. unfold sys_budget in H2. rewrite env_size_spec in H2.
    unfold env_strings in *. rewrite map_length in *.
    assert (Hpos : 0 < strings lens + 8 * N.of_nat (length lens)).
    { destruct lens; [congruence|]. cbn [length]. lia. }
    lia.
Qed.

(* an argument longer than the per-argument limit is never part of any admitted batch *)
Theorem oversize_never_admitted c b a : within_limits c b -> In a b -> alen a + 1 <= MAX_ARG_STRLEN.
Proof.
  intros (_ & _ & _ & _ & Hs) Hin. rewrite Forall_forall in Hs. specialize (Hs a Hin).
  unfold cost, max_single_arg in Hs. unfold MAX_ARG_STRLEN. exact Hs.
Qed.

(* C08: a batch within argmax's budget is accepted by the kernel *)
Lemma argmax_args_spec l : argmax_args l = strings l + 8 * N.of_nat (length l).
Proof. unfold argmax_args, strings, argmax_arg. induction l as [|x l IH]; cbn [fold_right length]; [reflexivity|]. rewrite IH. lia. Qed.
Lemma argmax_env_spec env : argmax_env env = strings (env_strings env) + 8 * N.of_nat (length env).
Proof.
  unfold argmax_env, strings, env_strings. induction env as [|[k v] env IH]; cbn [fold_right map length fst snd]; [reflexivity|].
  rewrite IH. lia.
Qed.

Theorem argmax_batch_accepted rl env prog fixed batch fn sb :
  argmax_args batch <= argmax_budget (kernel_limit rl) env prog fixed ->
  0 < argmax_budget (kernel_limit rl) env prog fixed \/ batch <> [] ->
  Forall (fun len => len <= argmax_single) (prog :: fixed ++ batch) ->
  Forall (fun len => len + 1 <= MAX_ARG_STRLEN) (env_strings env) ->
  fn + 1 + sb <= 4096 + 2048 ->
  kernel_accepts rl {| argv := prog :: fixed ++ batch; envp := env_strings env; fname := fn; shebang := sb |}.
Proof.
  intros Hb Hpos Hs He Hf. split; cbn [argv envp fname shebang].
  - apply Forall_app. split; [|exact He]. eapply Forall_impl; [|exact Hs]. intros l Hl. unfold argmax_single in Hl. unfold MAX_ARG_STRLEN. lia.
  - unfold argmax_budget in *. rewrite !argmax_args_spec in *. rewrite argmax_env_spec in *. unfold argmax_arg in *.
    cbn [strings fold_right length]. fold (strings (fixed ++ batch)). rewrite strings_app, app_length.
    unfold env_strings in *. rewrite map_length in *.
    assert (Hnz : 0 < strings batch + 8 * N.of_nat (length batch) \/ batch = []).
    { destruct batch; [now right|left]. cbn [length]. lia. }
    destruct Hpos as [Hpos|Hpos]; [|destruct Hnz; [|congruence]]; lia.
Qed.

(* ... and with the reserve MultiExecMatcher keeps, whatever file name (within PATH_MAX) the command is found under and
   whatever "#!" line (within 256 bytes) it starts with *)
Theorem find_batch_accepted rl env prog fixed batch fn sb :
  argmax_args batch <= find_budget (kernel_limit rl) env prog fixed ->
  batch <> [] ->
  Forall (fun len => len <= argmax_single) (prog :: fixed ++ batch) ->
  Forall (fun len => len + 1 <= MAX_ARG_STRLEN) (env_strings env) ->
  fn + 1 <= 4096 -> sb <= 4096 + 256 ->
  kernel_accepts rl {| argv := prog :: fixed ++ batch; envp := env_strings env; fname := fn; shebang := sb |}.
Proof.
  intros Hb Hne Hs He Hf Hsb. split; cbn [argv envp fname shebang].
  - apply Forall_app. split; [|exact He]. eapply Forall_impl; [|exact Hs]. intros l Hl. unfold argmax_single in Hl. unfold MAX_ARG_STRLEN. lia.
  - unfold find_budget, find_reserve, argmax_budget in *. rewrite !argmax_args_spec in *. rewrite argmax_env_spec in *. unfold argmax_arg in *.
    cbn [strings fold_right length]. fold (strings (fixed ++ batch)). rewrite strings_app, app_length.
    unfold env_strings in *. rewrite map_length in *.
    assert (Hnz : 0 < strings batch + 8 * N.of_nat (length batch)).
    { destruct batch; [congruence|]. cbn [length]. lia. }
    lia.
Qed.

Lemma ones_cost n : fold_right (fun len s => len + 1 + s) 0 (repeat 1 n) = 2 * N.of_nat n /\ strings (repeat 1 n) = 2 * N.of_nat n.
Proof.
  induction n as [|n [IH1 IH2]]; [split; reflexivity|].
  change (repeat 1 (S n)) with (1 :: repeat 1 n).
  unfold strings in *. cbn [fold_right]. rewrite !IH1. lia.
Qed.
Theorem pinned_refuted n : N.of_nat n = 400000 ->
  let args := repeat 1 n in
  fold_right (fun len s => len + 1 + s) 0 args <= 2097152 - 2048 /\
  ~ (strings args + 8 * N.of_nat (length args) <= kernel_limit 8388608).
Proof.
  intros Hn. cbn zeta. destruct (ones_cost n) as [E1 E2]. rewrite E1, E2, repeat_length, Hn.
  change (kernel_limit 8388608) with 2097152. lia.
Qed.

(* a single argument beyond the per-argument bound: refused by the system limiter even alone -> status 1 *)
Require Import XArgsTop.
Lemma try_arg_last_refuses a : max_single_arg < cost a -> forall ls,
  (exists pre cur sys, ls = pre ++ [LChars cur sys 8 max_single_arg]) -> exists o, try_arg ls a = Refuse o.
Proof.
  intros H ls (pre & cur & sys & ->). induction pre as [|l pre IH]; cbn [app].
  - cbn [try_arg]. destruct (N.leb_spec (cost a) max_single_arg); [lia|]. cbn [andb]. eauto.
  - destruct IH as [o E]. cbn [try_arg]. destruct l as [c m|c m|c m ov s].
    + destruct (c <? m); [rewrite E|]; eauto.
    + destruct (c <=? m); [rewrite E|]; eauto.
    + destruct (andb _ _); [rewrite E|]; eauto.
Qed.

Theorem oversize_status c tmpl a outs :
  charge_init (limiters0 c) (charged c) = Some tmpl -> c_replace c = false ->
  max_single_arg < cost a ->
  fst (xargs_run c [a] false outs) = 1.
Proof.
  intros Ht Hr Ha. unfold xargs_run. rewrite Ht.
  assert (Hshape : exists pre cur sys, tmpl = pre ++ [LChars cur sys 8 max_single_arg]).
  { apply charge_init_spec in Ht. subst tmpl. unfold limiters0. rewrite Hr.
    destruct (c_n c), (c_L c), (c_s c); cbn [app map advi];
      match goal with |- exists pre cur sys, ?l = _ =>
        exists (removelast l); eexists; eexists; cbn [removelast]; reflexivity end. }
  destruct (try_arg_last_refuses a Ha tmpl Hshape) as [o E].
  cbn [process_x]. rewrite E. destruct (fatalf c tmpl a); reflexivity.
Qed.
