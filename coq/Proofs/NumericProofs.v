Require Import Tables TablesOk Numeric.
From Coq Require Import List NArith ZArith Bool Arith Lia.
Import ListNotations.

Section N.
Open Scope N_scope.
Theorem trichotomy n v :
  (matches (EqualTo n) v = true /\ matches (MoreThan n) v = false /\ matches (LessThan n) v = false) \/
  (matches (EqualTo n) v = false /\ matches (MoreThan n) v = true /\ matches (LessThan n) v = false) \/
  (matches (EqualTo n) v = false /\ matches (MoreThan n) v = false /\ matches (LessThan n) v = true).
Proof. cbn. destruct (N.eqb_spec v n), (N.ltb_spec n v), (N.ltb_spec v n); try lia; tauto. Qed.
Theorem more_monotone n n' v : n <= n' -> matches (MoreThan n') v = true -> matches (MoreThan n) v = true.
Proof. cbn. rewrite !N.ltb_lt. lia. Qed.
Theorem less_monotone n n' v : n <= n' -> matches (LessThan n) v = true -> matches (LessThan n') v = true.
Proof. cbn. rewrite !N.ltb_lt. lia. Qed.
Theorem matches_meaning n v : (matches (EqualTo n) v = true <-> v = n) /\ (matches (MoreThan n) v = true <-> n < v) /\
  (matches (LessThan n) v = true <-> v < n).
Proof. cbn. rewrite N.eqb_eq, !N.ltb_lt. tauto. Qed.

Theorem imatches_nonneg c v : (0 <= v)%Z -> imatches c v = matches c (Z.to_N v).
Proof.
  intros H. destruct c; cbn.
  - destruct (Z.leb_spec 0 v); [reflexivity|lia].
  - destruct (Z.leb_spec 0 v); [reflexivity|lia].
  - destruct (Z.ltb_spec v 0); [lia|reflexivity].
Qed.

(* the measured value is the size divided by the unit, rounded up *)
Theorem unit_size_ceil bits size : 0 < size ->
  (unit_size bits size - 1) * 2 ^ bits < size <= unit_size bits size * 2 ^ bits.
Proof.
  intros H. unfold unit_size. destruct (N.eqb_spec size 0); [lia|].
  destruct (N.eqb_spec bits 0) as [->|_]; [cbn; lia|].
  rewrite N.shiftr_div_pow2.
  assert (P : 2 ^ bits <> 0) by (apply N.pow_nonzero; lia).
  set (u := 2 ^ bits) in *. clearbody u.
  pose proof (N.div_mod (size - 1) u P) as E. pose proof (N.mod_lt (size - 1) u P) as L.
  set (q := (size - 1) / u) in *. set (r := (size - 1) mod u) in *. clearbody q r.
  replace (q + 1 - 1) with q by lia. nia.
Qed.
Theorem unit_size_zero bits : unit_size bits 0 = 0. Proof. reflexivity. Qed.

Theorem size_less_1 bits size : matches (LessThan 1) (unit_size bits size) = true <-> size = 0.
Proof.
  cbn. rewrite N.ltb_lt. split.
  - intros H. destruct (N.eq_dec size 0); [assumption|]. pose proof (unit_size_ceil bits size ltac:(lia)). nia.
  - intros ->. cbn. lia.
Qed.
Theorem size_eq_1 bits size : matches (EqualTo 1) (unit_size bits size) = true <-> 1 <= size <= 2 ^ bits.
Proof.
  cbn. rewrite N.eqb_eq. split.
  - intros H. destruct (N.eq_dec size 0) as [->|Hn]; [cbn in H; lia|].
    pose proof (unit_size_ceil bits size ltac:(lia)) as C. rewrite H in C. lia.
  - intros [H1 H2]. pose proof (unit_size_ceil bits size ltac:(lia)) as C.
    assert (P : 0 < 2 ^ bits) by (apply N.neq_0_lt_0, N.pow_nonzero; lia).
    set (k := unit_size bits size) in *. clearbody k. nia.
Qed.

(* the same for every N: -size N / +N / -N as conditions on the size in bytes *)
Lemma unit_size_le bits size k : unit_size bits size <= k <-> size <= k * 2 ^ bits.
Proof.
  assert (P : 0 < 2 ^ bits) by (apply N.neq_0_lt_0, N.pow_nonzero; lia).
  destruct (N.eq_dec size 0) as [->|Hn]; [rewrite unit_size_zero; lia|].
  pose proof (unit_size_ceil bits size ltac:(lia)) as C.
  set (u := unit_size bits size) in *. clearbody u. set (w := 2 ^ bits) in *. clearbody w.
  split; intros H.
  - nia.
  - destruct (N.le_gt_cases u k) as [L|G]; [exact L|]. assert (k <= u - 1) by lia. nia.
Qed.
Theorem size_more_n bits n size : matches (MoreThan n) (unit_size bits size) = true <-> n * 2 ^ bits < size.
Proof. cbn. rewrite N.ltb_lt. pose proof (unit_size_le bits size n). lia. Qed.
Theorem size_less_n bits n size : 0 < n ->
  (matches (LessThan n) (unit_size bits size) = true <-> size <= (n - 1) * 2 ^ bits).
Proof. intros Hn. cbn. rewrite N.ltb_lt. pose proof (unit_size_le bits size (n - 1)). lia. Qed.
Theorem size_eq_n bits n size : 0 < n ->
  (matches (EqualTo n) (unit_size bits size) = true <-> (n - 1) * 2 ^ bits < size <= n * 2 ^ bits).
Proof.
  intros Hn. cbn. rewrite N.eqb_eq.
  pose proof (unit_size_le bits size n). pose proof (unit_size_le bits size (n - 1)). lia.
Qed.
Theorem size_eq_0 bits size : matches (EqualTo 0) (unit_size bits size) = true <-> size = 0.
Proof. cbn. rewrite N.eqb_eq. pose proof (unit_size_le bits size 0). lia. Qed.
Theorem size_less_0 bits size : matches (LessThan 0) (unit_size bits size) = false.
Proof. cbn. apply N.ltb_ge. lia. Qed.

(* the unit table: c=1, w=2, b or nothing=512, k=2^10, M=2^20, G=2^30 bytes; nothing else *)
Theorem units_table :
  unit_bits [99%nat] = Some 0 /\ unit_bits [119%nat] = Some 1 /\ unit_bits [98%nat] = Some 9 /\ unit_bits [] = Some 9 /\
  unit_bits [107%nat] = Some 10 /\ unit_bits [77%nat] = Some 20 /\ unit_bits [71%nat] = Some 30 /\
  (forall s, unit_bits s <> None -> In s [[99%nat]; [119%nat]; [98%nat]; []; [107%nat]; [77%nat]; [71%nat]]).
Proof.
  unfold unit_bits. rewrite size_units_ok. repeat split; try reflexivity.
  assert (Hs : forall a b, list_eqb a b = true -> a = b).
  { induction a as [|x a IH]; destruct b as [|y b]; cbn; try discriminate; auto.
    intros E. apply andb_true_iff in E as [E1 E2]. apply Nat.eqb_eq in E1. subst. f_equal. auto. }
  intros s. cbn [assoc_str].
  repeat match goal with
         | |- context [list_eqb s ?k] =>
             let E := fresh "E" in destruct (list_eqb s k) eqn:E; [apply Hs in E; subst; intros _; cbn; tauto|]
         end.
  congruence.
Qed.

(* -perm *)
Theorem perm_all_bits pattern value :
  mode_bits_match AtLeast pattern value = true <-> forall i, N.testbit pattern i = true -> N.testbit value i = true.
Proof.
  cbn. rewrite N.eqb_eq. split.
  - intros H i Hi. apply (f_equal (fun x => N.testbit x i)) in H. rewrite N.land_spec, Hi, andb_true_r in H. exact H.
  - intros H. apply N.bits_inj. intros i. rewrite N.land_spec.
    destruct (N.testbit pattern i) eqn:E; [now rewrite (H i E)|now rewrite andb_false_r].
Qed.
Theorem perm_any_bit pattern value :
  mode_bits_match AnyOf pattern value = true <-> pattern = 0 \/ exists i, N.testbit pattern i = true /\ N.testbit value i = true.
Proof.
  cbn. rewrite orb_true_iff, N.eqb_eq, N.ltb_lt. split.
  - intros [H|H]; [now left|right].
    assert (Hn : N.land value pattern <> 0) by lia.
    pose proof (N.bit_log2 _ Hn) as Hb. rewrite N.land_spec in Hb.
    apply andb_true_iff in Hb as [Hv Hp]. eauto.
  - intros [->|(i & Hp & Hv)]; [now left|right].
    assert (N.testbit (N.land value pattern) i = true) by (rewrite N.land_spec, Hp, Hv; reflexivity).
    destruct (N.land value pattern) eqn:E; [rewrite N.bits_0 in H; discriminate|lia].
Qed.
Theorem perm_exact pattern value : pattern < 4096 ->
  (mode_bits_match Exact pattern value = true <-> forall i, i < 12 -> N.testbit value i = N.testbit pattern i).
Proof.
  intros Hp. unfold mode_bits_match. rewrite N.eqb_eq. split.
  - intros H i Hi. rewrite <- H, N.land_spec.
    change 4095 with (N.ones 12). rewrite N.ones_spec_low by lia. reflexivity.
  - intros H. apply N.bits_inj. intros i. rewrite N.land_spec. change 4095 with (N.ones 12).
    destruct (N.lt_ge_cases i 12) as [Hi|Hi].
    + rewrite N.ones_spec_low by lia. cbn. auto.
    + rewrite N.ones_spec_high by lia. cbn. symmetry.
      destruct (N.eq_dec pattern 0) as [->|Hn]; [apply N.bits_0|].
      apply N.bits_above_log2.
      assert (N.log2 pattern < 12) by (apply N.log2_lt_pow2; [lia|exact Hp]). lia.
Qed.
End N.

(* ---- operand reading: sign, decimal digits, suffix ---- *)
Definition sign_chars (sg : nat) : list nat := match sg with 1 => [43] | 2 => [45] | _ => [] end.
Definition mk_cmp (sg : nat) (v : N) : cmp := match sg with 1 => MoreThan v | 2 => LessThan v | _ => EqualTo v end.
Definition suffix_ok (s : list nat) : bool :=
  match s with c :: _ => negb (is_digit c) | [] => true end && negb (existsb (Nat.eqb 10) s).

Lemma span_digits_app ds s : forallb is_digit ds = true -> (match s with c :: _ => is_digit c = false | [] => True end) ->
  span_digits (ds ++ s) = (ds, s).
Proof.
  intros Hd Hs. induction ds as [|c ds IH]; cbn [app].
  - destruct s as [|c s]; [reflexivity|]. cbn. now rewrite Hs.
  - cbn [forallb] in Hd. apply andb_true_iff in Hd as [Hc Hd]. cbn [span_digits]. rewrite Hc, IH by assumption. reflexivity.
Qed.

(* N means "equals N", +N "greater", -N "less", with N read in decimal, for every digit string
   whose value fits in 64 bits; anything larger is rejected *)
Theorem parse_cv_spec sg ds suffix : sg < 3 -> ds <> [] -> forallb is_digit ds = true -> suffix_ok suffix = true ->
  parse_cv (sign_chars sg ++ ds ++ suffix) =
  if (digits_val ds <=? u64_max)%N then Some (mk_cmp sg (digits_val ds), suffix) else None.
Proof.
  intros Hsg Hne Hd Hs. unfold suffix_ok in Hs. apply andb_true_iff in Hs as [Hs1 Hs2]. apply negb_true_iff in Hs2.
  assert (Hhd : match suffix with c :: _ => is_digit c = false | [] => True end).
  { destruct suffix; [exact I|]. now apply negb_true_iff in Hs1. }
  assert (Hfirst : exists c ds', ds = c :: ds' /\ is_digit c = true).
  { destruct ds as [|c ds']; [congruence|]. cbn in Hd. apply andb_true_iff in Hd as [Hc _]. eauto. }
  destruct Hfirst as (c & ds' & Eds & Hc).
  assert (Hc43 : c <> 43 /\ c <> 45).
  { unfold is_digit in Hc. apply andb_true_iff in Hc as [H1 H2]. apply Nat.leb_le in H1, H2. lia. }
  unfold parse_cv.
  assert (E : (let '(sign, rest) := match sign_chars sg ++ ds ++ suffix with 43 :: r => (1, r) | 45 :: r => (2, r) | _ => (0, sign_chars sg ++ ds ++ suffix) end in (sign, rest))
              = (match sg with 1 => 1 | 2 => 2 | _ => 0 end, ds ++ suffix)).
  { destruct sg as [|[|[|sg]]]; try lia; cbn [sign_chars app]; try reflexivity.
    subst ds. cbn [app]. destruct Hc43 as [H43 H45].
    destruct c as [|c']; [reflexivity|].
    do 43 (destruct c' as [|c']; [try reflexivity; try congruence|]). destruct c' as [|c']; [reflexivity|].
    destruct c' as [|c']; [congruence|]. reflexivity. }
  destruct (match sign_chars sg ++ ds ++ suffix with 43 :: r => (1, r) | 45 :: r => (2, r) | _ => (0, sign_chars sg ++ ds ++ suffix) end)
    as [sign rest] eqn:Em.
  cbn in E. injection E as -> ->.
  rewrite span_digits_app by assumption. subst ds. rewrite Hs2.
  destruct (digits_val (c :: ds') <=? u64_max)%N; [|reflexivity].
  destruct sg as [|[|[|sg]]]; try lia; reflexivity.
Qed.

(* ---- ages ---- *)
Open Scope Z_scope.
(* for timestamps not in the future the measured value is the number of complete periods in
   (now - ts), any fraction discarded *)
Theorem age_whole_periods period now ts : 0 < period -> ts <= now ->
  age_units period now ts = (now - ts) / (period * 1000000000).
Proof.
  intros Hp H. unfold age_units. destruct (Z.leb_spec 0 (now - ts)); [|lia].
  rewrite Z.div_div by lia. f_equal. lia.
Qed.
Theorem age_test_spec period operand now ts c : 0 < period -> ts <= now -> parse_cv_plain operand = Some c ->
  age_test period operand now ts = Some (matches c (Z.to_N ((now - ts) / (period * 1000000000)))).
Proof.
  intros Hp H E. unfold age_test. rewrite E. rewrite age_whole_periods by assumption.
  rewrite imatches_nonneg; [reflexivity|]. apply Z.div_pos; lia.
Qed.
(* a timestamp in the future: the value is negative (one period below the whole periods of the
   distance), so N and +N are false and -N is true for every N *)
Theorem age_future period now ts : 0 < period -> now < ts ->
  age_units period now ts = - ((ts - now) / 1000000000 / period) - 1 /\ age_units period now ts < 0.
Proof.
  intros Hp H. unfold age_units. destruct (Z.leb_spec 0 (now - ts)); [lia|].
  replace (- (now - ts)) with (ts - now) by lia.
  assert (Ha : 0 <= (ts - now) / 1000000000) by (apply Z.div_pos; lia).
  set (a := (ts - now) / 1000000000) in *. clearbody a.
  rewrite Z.quot_opp_l by lia. rewrite Z.quot_div_nonneg by lia.
  assert (0 <= a / period) by (apply Z.div_pos; lia). split; lia.
Qed.
Theorem age_test_future period operand now ts c : 0 < period -> now < ts -> parse_cv_plain operand = Some c ->
  age_test period operand now ts = Some (match c with LessThan _ => true | _ => false end).
Proof.
  intros Hp H E. unfold age_test. rewrite E. destruct (age_future period now ts Hp H) as [_ L].
  set (v := age_units period now ts) in *. clearbody v. f_equal.
  destruct c; cbn; [destruct (Z.leb_spec 0 v)|destruct (Z.leb_spec 0 v)|destruct (Z.ltb_spec v 0)]; try lia; reflexivity.
Qed.
(* whatever the measured age is (negative for a timestamp in the future), exactly one of N, +N, -N holds *)
Theorem imatches_trichotomy n v :
  (imatches (EqualTo n) v = true /\ imatches (MoreThan n) v = false /\ imatches (LessThan n) v = false) \/
  (imatches (EqualTo n) v = false /\ imatches (MoreThan n) v = true /\ imatches (LessThan n) v = false) \/
  (imatches (EqualTo n) v = false /\ imatches (MoreThan n) v = false /\ imatches (LessThan n) v = true).
Proof.
  destruct (Z.lt_ge_cases v 0) as [Hneg|Hpos].
  - right. right. cbn. destruct (Z.leb_spec 0 v); [lia|]. destruct (Z.ltb_spec v 0); [|lia]. auto.
  - rewrite !imatches_nonneg by lia. apply trichotomy.
Qed.
Theorem newer_strict e r : newer e r = true <-> r < e. Proof. apply Z.ltb_lt. Qed.
