Require Import Batch.
From Coq Require Import List Arith Bool Lia.
Import ListNotations.

Section Greedy.
Variable A S : Type.
Variable tmpl : S.
Variable acc : S -> A -> option S.
Variable fatal : S -> A -> bool.
Variable r : bool.
Notation process := (process A S tmpl acc fatal r).
Notation charge := (charge A S acc).
Notation fits := (fits A S tmpl acc).
Notation greedy := (greedy A S tmpl acc).

Lemma snoc_ne {X} (l : list X) x : l ++ [x] <> []. Proof. destruct l; discriminate. Qed.

Lemma charge_app ls b a : charge ls (b ++ [a]) = match charge ls b with Some ls' => acc ls' a | None => None end.
Proof.
  revert ls. induction b as [|x b IH]; intros ls; cbn.
  - destruct (acc ls a); reflexivity.
  - destruct (acc ls x); [apply IH|reflexivity].
Qed.

Lemma greedy_snoc bs b : greedy bs -> fits b -> b <> [] ->
  (match bs with [] => True | _ => match b with a :: _ => ~ fits (last bs [] ++ [a]) | [] => False end end) ->
  greedy (bs ++ [b]).
Proof.
  induction bs as [|b0 bs IH]; intros Hg Hf Hne Hmax.
  - cbn. auto.
  - cbn [app greedy]. destruct Hg as (Hf0 & Hne0 & Hm0 & Hg'). repeat split; auto.
    + destruct bs as [|b1 bs]; cbn [app].
      * destruct b as [|a b]; [contradiction|]. exact Hmax.
      * exact Hm0.
    + apply IH; auto. destruct bs as [|b1 bs]; [exact I|]. exact Hmax.
Qed.

(* invariant of the loop *)
Theorem process_spec : forall args ls cur pending done,
  charge tmpl cur = Some ls -> (pending = true <-> cur <> []) ->
  greedy done -> (done <> [] -> pending = true) ->
  (match done with [] => True | _ => match cur with a :: _ => ~ fits (last done [] ++ [a]) | [] => True end end) ->
  match process ls cur pending args done with
  | Ran bs => concat bs = concat done ++ cur ++ args /\
              (cur ++ args <> [] -> greedy bs) /\
              (cur ++ args = [] -> bs = if r then [] else [[]])
  | TooLarge bs => exists pre a post, concat done ++ cur ++ args = pre ++ a :: post /\
              greedy bs /\ (~ fits [a] \/ exists s b, charge tmpl b = Some s /\ fatal s a = true /\ concat bs ++ b = pre)
  end.
Proof.
  induction args as [|a rest IH]; intros ls cur pending done Hch Hp Hg Hd Hmax.
  - cbn [process]. rewrite app_nil_r. destruct cur as [|c cur].
    + assert (pending = false) by (destruct pending; [exfalso; apply (proj1 Hp eq_refl); reflexivity|reflexivity]). subst.
      assert (done = []) by (destruct done; [reflexivity|specialize (Hd ltac:(discriminate)); discriminate]). subst.
      cbn. rewrite orb_false_r. destruct r; cbn; (split; [reflexivity|split; [congruence|reflexivity]]).
    + assert (pending = true) by (apply Hp; discriminate). subst. rewrite orb_true_r.
      rewrite concat_app. cbn [concat]. rewrite app_nil_r. split; [reflexivity|]. split; [|discriminate].
      intros _. apply greedy_snoc.
      * exact Hg.
      * unfold fits. rewrite Hch. discriminate.
      * discriminate.
      * destruct done; [exact I|exact Hmax].
  - cbn [process]. destruct (acc ls a) as [ls'|] eqn:Ea.
    + (* accepted into the current invocation *)
      specialize (IH ls' (cur ++ [a]) true done).
      assert (Hch' : charge tmpl (cur ++ [a]) = Some ls') by (rewrite charge_app, Hch; exact Ea).
      specialize (IH Hch' ltac:(split; [intros _; apply snoc_ne|reflexivity]) Hg ltac:(reflexivity)).
      assert (Hmax' : match done with [] => True | _ => match cur ++ [a] with x :: _ => ~ fits (last done [] ++ [x]) | [] => True end end).
      { destruct done; [exact I|]. destruct cur as [|c cur]; cbn [app].
        - (* first argument of a fresh invocation: cur = [] only at the very start, where done = [] *)
          exfalso. assert (pending = true) by (apply Hd; discriminate). subst. now apply (proj1 Hp eq_refl).
        - exact Hmax. }
      specialize (IH Hmax').
      destruct (process ls' (cur ++ [a]) true rest done) as [bs|bs].
      * rewrite <- !app_assoc in IH. cbn [app] in IH. destruct IH as (H1 & H2 & H3).
        split; [exact H1|]. split.
        -- intros _. apply H2. destruct cur; discriminate.
        -- intros H. destruct cur; discriminate.
      * rewrite <- !app_assoc in IH. exact IH.
    + destruct (fatal ls a) eqn:Ef.
      * exists (concat done ++ cur), a, rest. rewrite <- app_assoc. repeat split; auto.
        right. exists ls, cur. split; [exact Hch|]. split; [exact Ef|reflexivity].
      * set (done' := if pending then done ++ [cur] else done).
        assert (Hcd : concat done' ++ a :: rest = concat done ++ cur ++ a :: rest).
        { unfold done'. destruct pending.
          - rewrite concat_app. cbn [concat]. now rewrite app_nil_r, <- app_assoc.
          - assert (cur = []) by (destruct cur; [reflexivity|discriminate (proj2 Hp ltac:(discriminate))]). subst.
            reflexivity. }
        assert (Hg' : greedy done').
        { unfold done'. destruct pending; [|exact Hg].
          assert (cur <> []) by now apply Hp.
          apply greedy_snoc.
          - exact Hg.
          - unfold fits. rewrite Hch. discriminate.
          - assumption.
          - destruct done; [exact I|]. destruct cur; [contradiction|exact Hmax]. }
        destruct (acc tmpl a) as [ls'|] eqn:Et.
        -- specialize (IH ls' [a] true done').
           assert (Hch' : charge tmpl [a] = Some ls') by (cbn; now rewrite Et).
           specialize (IH Hch' ltac:(split; [discriminate|reflexivity]) Hg' ltac:(reflexivity)).
           assert (Hmax' : match done' with [] => True | _ => ~ fits (last done' [] ++ [a]) end).
           { unfold done'. destruct pending; [|].
             - rewrite last_last. destruct (done ++ [cur]) eqn:E; [now apply snoc_ne in E|].
               unfold fits. rewrite charge_app, Hch, Ea. auto.
             - assert (done = []) by (destruct done; [reflexivity|discriminate (Hd ltac:(discriminate))]). subst. exact I. }
           specialize (IH Hmax').
           destruct (process ls' [a] true rest done') as [bs|bs].
           ++ cbn [app] in IH. rewrite Hcd in IH. destruct IH as (H1 & H2 & H3).
              split; [exact H1|]. split.
              ** intros _. apply H2. discriminate.
              ** intros H. destruct cur; discriminate.
           ++ cbn [app] in IH. rewrite Hcd in IH. exact IH.
        -- exists (concat done ++ cur), a, rest. rewrite <- app_assoc. repeat split; auto.
           left. unfold fits. cbn. rewrite Et. auto.
Qed.
End Greedy.
