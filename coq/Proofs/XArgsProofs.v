Require Import Batch BatchProofs XArgs.
From Coq Require Import List NArith Bool Lia.
Import ListNotations.
Local Open Scope N_scope.

(* ---------- the interleaved run = pure batching followed by executing the batches in order ---------- *)
Section Factor.
Variable c : config.
Variable tmpl : list limiter.
Notation processP := (process arg (list limiter) tmpl accf (fatalf c) (c_r c)).

Definition prepend (d : list (list arg)) (o : outcome arg) : outcome arg :=
  match o with Ran bs => Ran (d ++ bs) | TooLarge bs => TooLarge (d ++ bs) end.

Lemma process_done : forall args ls cur p done,
  processP ls cur p args done = prepend done (processP ls cur p args []).
Proof.
  induction args as [|a rest IH]; intros ls cur p done.
  - cbn. destruct (negb (c_r c) || p); cbn; now rewrite ?app_nil_r.
  - cbn [process]. destruct (accf ls a) as [ls'|]; [apply IH|].
    destruct (fatalf c ls a); [cbn; now rewrite app_nil_r|].
    destruct (accf tmpl a) as [ls'|].
    + rewrite IH. rewrite (IH ls' [a] true (if p then [] ++ [cur] else [])).
      destruct p; cbn [app]; destruct (processP ls' [a] true rest []); cbn; now rewrite <- ?app_assoc.
    + destruct p; cbn; now rewrite ?app_nil_r.
Qed.

(* execute the batches one after the other; stop at the first fatal outcome *)
Fixpoint exec_all (st : xs) (bs : list (list arg)) : xs + (N * list (list arg)) :=
  match bs with
  | [] => inl st
  | b :: bs' => match exec c st b with inl st' => exec_all st' bs' | inr stop => inr stop end
  end.

Definition finish (o : outcome arg) (st : xs) : N * list (list arg) :=
  match o with
  | Ran bs => match exec_all st bs with inl st' => (status_ok (res st'), log st') | inr stop => stop end
  | TooLarge bs => match exec_all st bs with inl st' => (1, log st') | inr stop => stop end
  end.

Lemma finish_prepend d o st :
  finish (prepend d o) st = match exec_all st d with inl st' => finish o st' | inr stop => stop end.
Proof.
  assert (H : forall d st bs, exec_all st (d ++ bs) =
              match exec_all st d with inl st' => exec_all st' bs | inr stop => inr stop end).
  { clear. induction d as [|b d IH]; intros st bs; [reflexivity|]. cbn [app exec_all].
    destruct (exec c st b); [apply IH|reflexivity]. }
  destruct o; cbn [prepend finish]; rewrite H; destruct (exec_all st d); reflexivity.
Qed.

(* (outside -I: there every line is run as soon as it is read - replace_eager in XArgsTop.v) *)
Theorem process_x_factor : c_replace c = false -> forall args ls cur p st,
  process_x c tmpl ls cur p args false st = finish (processP ls cur p args []) st.
Proof.
  intros Hnr. induction args as [|a rest IH]; intros ls cur p st.
  - cbn [process_x process]. destruct (negb (c_r c) || p); cbn [app finish exec_all]; [|reflexivity].
    destruct (exec c st cur); reflexivity.
  - cbn [process_x process]. rewrite Hnr. unfold accf at 1.
    destruct (try_arg ls a) as [ls'|o] eqn:E; [apply IH|].
    destruct (fatalf c ls a); [reflexivity|].
    unfold accf at 1.
    destruct (try_arg tmpl a) as [ls'|o'] eqn:E'.
    + rewrite process_done, finish_prepend. destruct p; cbn [app exec_all].
      * destruct (exec c st cur); [apply IH|reflexivity].
      * apply IH.
    + destruct p; cbn [app finish exec_all]; [|reflexivity].
      destruct (exec c st cur); reflexivity.
Qed.
End Factor.

(* ---------- the limiter chain accepts a batch iff every declarative limit holds ---------- *)
Definition count_hard (b : list arg) : N := N.of_nat (length (filter is_hard b)).
Definition total (o : N) (b : list arg) : N := fold_right (fun a s => cost a + o + s) 0 b.
Definition len (b : list arg) : N := N.of_nat (length b).

Definition lim_ok (l : limiter) (b : list arg) : Prop :=       (* limiter [l], as it was for the empty batch *)
  match l with
  | LArgs c m => c + len b <= m
  | LLines c m => b = [] \/ c + count_hard (removelast b) <= m
  | LChars c m o s => c + total o b <= m /\ Forall (fun a => cost a <= s) b
  end.
Definition all_ok (ls : list limiter) (b : list arg) := Forall (fun l => lim_ok l b) ls.

Definition adv (l : limiter) (b : list arg) : limiter :=         (* state after charging [b] *)
  match l with
  | LArgs c m => LArgs (c + len b) m
  | LLines c m => LLines (c + count_hard b) m
  | LChars c m o s => LChars (c + total o b) m o s
  end.

Lemma total_app o b a : total o (b ++ [a]) = total o b + (cost a + o).
Proof. unfold total. induction b as [|x b IH]; cbn [app fold_right]; [lia|]. rewrite IH. lia. Qed.
Lemma count_hard_app b a : count_hard (b ++ [a]) = count_hard b + (if is_hard a then 1 else 0).
Proof. unfold count_hard. rewrite filter_app, app_length. cbn. destruct (is_hard a); cbn; lia. Qed.
Lemma len_app b a : len (b ++ [a]) = len b + 1.
Proof. unfold len. rewrite app_length. cbn. lia. Qed.
Lemma removelast_snoc {A} (l : list A) x : removelast (l ++ [x]) = l.
Proof. induction l as [|a l IH]; [reflexivity|]. cbn. destruct (l ++ [x]) eqn:E; [destruct l; discriminate|now rewrite IH]. Qed.

Lemma try_arg_step ls b a : is_initial a = false ->
  all_ok ls b ->
  (try_arg (map (fun l => adv l b) ls) a = Acc (map (fun l => adv l (b ++ [a])) ls) /\ all_ok ls (b ++ [a]))
  \/ ((exists o, try_arg (map (fun l => adv l b) ls) a = Refuse o) /\ ~ all_ok ls (b ++ [a])).
Proof.
  intros Hi. induction ls as [|l ls IH]; intros Hok.
  - left. split; [reflexivity|constructor].
  - inversion Hok as [|? ? Hl Hls]; subst. specialize (IH Hls). cbn [map try_arg].
    destruct l as [c m|c m|c m o s]; cbn [adv lim_ok] in *.
    + destruct (N.ltb_spec (c + len b) m) as [Hlt|Hge].
      * destruct IH as [[E O]|[[o E] O]]; rewrite E.
        -- left. rewrite Hi, len_app. split; [now rewrite N.add_assoc|].
           constructor; [cbn [lim_ok]; rewrite len_app; lia|exact O].
        -- right. split; [eauto|]. intros H; inversion H; subst; auto.
      * right. split; [eauto|]. intros H; inversion H as [|? ? Hx _]; subst. cbn [lim_ok] in Hx. rewrite len_app in Hx. lia.
    + destruct (N.leb_spec (c + count_hard b) m) as [Hle|Hgt].
      * destruct IH as [[E O]|[[o E] O]]; rewrite E.
        -- left. rewrite count_hard_app. split; [destruct (is_hard a); [now rewrite N.add_assoc|now rewrite N.add_0_r]|].
           constructor; [cbn [lim_ok]; right; now rewrite removelast_snoc|exact O].
        -- right. split; [eauto|]. intros H; inversion H; subst; auto.
      * right. split; [eauto|]. intros H; inversion H as [|? ? Hx _]; subst. cbn [lim_ok] in Hx.
        rewrite removelast_snoc in Hx. destruct Hx as [Hx|Hx]; [destruct b; discriminate|lia].
    + destruct Hl as [Hl1 Hl2].
      destruct (N.leb_spec (cost a) s) as [Hs|Hs]; cbn [andb].
      * destruct (N.leb_spec (c + total o b + (cost a + o)) m) as [Hle|Hgt].
        -- destruct IH as [[E O]|[[o' E] O]]; rewrite E.
           ++ left. rewrite total_app. split; [now rewrite (N.add_assoc c)|].
              constructor; [cbn [lim_ok]; rewrite total_app; split; [lia|]; apply Forall_app; split; [assumption|now constructor]|exact O].
           ++ right. split; [eauto|]. intros H; inversion H; subst; auto.
        -- right. split; [eauto|]. intros H; inversion H as [|? ? Hx _]; subst. cbn [lim_ok] in Hx. rewrite total_app in Hx. lia.
      * right. split; [eauto|]. intros H; inversion H as [|? ? Hx _]; subst. cbn [lim_ok] in Hx. destruct Hx as [_ Hx].
        apply Forall_app in Hx as [_ Hx]. inversion Hx; subst. lia.
Qed.

Lemma adv_nil ls : map (fun l => adv l []) ls = ls.
Proof. induction ls as [|[c m|c m|c m o s] ls IH]; cbn; unfold len, count_hard; cbn; rewrite ?N.add_0_r, ?IH; reflexivity. Qed.

Lemma count_hard_removelast l : count_hard (removelast l) <= count_hard l.
Proof.
  unfold count_hard. induction l as [|y l IH]; [cbn; lia|].
  destruct l as [|z l]; [cbn [removelast filter length]; lia|].
  change (removelast (y :: z :: l)) with (y :: removelast (z :: l)).
  change (filter is_hard (y :: removelast (z :: l))) with (if is_hard y then y :: filter is_hard (removelast (z :: l)) else filter is_hard (removelast (z :: l))).
  change (filter is_hard (y :: z :: l)) with (if is_hard y then y :: filter is_hard (z :: l) else filter is_hard (z :: l)).
  destruct (is_hard y); cbn [length]; lia.
Qed.

(* limits are prefix-closed *)
Lemma all_ok_prefix ls b a : all_ok ls (b ++ [a]) -> all_ok ls b.
Proof.
  unfold all_ok. rewrite !Forall_forall. intros H l Hl. specialize (H l Hl).
  destruct l as [c m|c m|c m o s]; cbn in *.
  - rewrite len_app in H. lia.
  - rewrite removelast_snoc in H. destruct H as [H|H]; [destruct b; discriminate|].
    destruct b as [|x b]; [now left|right].
    pose proof (count_hard_removelast (x :: b)). lia.
  - rewrite total_app in H. destruct H as [H1 H2]. apply Forall_app in H2 as [H2 _]. split; [lia|assumption].
Qed.

Notation chargeX := (charge arg (list limiter) accf).

(* "fits" of the generic loop, instantiated with the chain, is exactly "all limits hold" *)
Theorem charge_iff_limits tmpl b : all_ok tmpl [] -> Forall (fun a => is_initial a = false) b ->
  (chargeX tmpl b = Some (map (fun l => adv l b) tmpl) /\ all_ok tmpl b)
  \/ (chargeX tmpl b = None /\ ~ all_ok tmpl b).
Proof.
  intros H0. induction b as [|a b IH] using rev_ind; intros Hni.
  - left. cbn. rewrite adv_nil. split; [reflexivity|exact H0].
  - apply Forall_app in Hni as [Hb Ha]. inversion Ha as [|? ? Hia _]; subst.
    rewrite charge_app. destruct (IH Hb) as [[E O]|[E O]]; rewrite E.
    + unfold accf. destruct (try_arg_step tmpl b a Hia O) as [[E' O']|[[o E'] O']]; rewrite E'; [left|right]; split; auto.
    + right. split; [reflexivity|]. intros H. apply O. eapply all_ok_prefix; eauto.
Qed.

Corollary fits_iff_limits tmpl b : all_ok tmpl [] -> Forall (fun a => is_initial a = false) b ->
  (fits arg (list limiter) tmpl accf b <-> all_ok tmpl b).
Proof.
  intros H0 Hb. unfold fits. destruct (charge_iff_limits tmpl b H0 Hb) as [[E O]|[E O]]; rewrite E; split; intros H; auto; try congruence; tauto.
Qed.

(* ---------- the template: limiter states after CommandBuilderOptions::new charged the initial arguments ---------- *)
Definition isum (o : N) (init : list N) : N := fold_right (fun l s => l + 1 + o + s) 0 init.
Definition advi (init : list N) (l : limiter) : limiter :=
  match l with LChars c m o s => LChars (c + isum o init) m o s | _ => l end.

Lemma try_arg_init l : forall ls ls', try_arg ls {| aid := 0; alen := l; akind := Initial |} = Acc ls' ->
  ls' = map (advi [l]) ls.
Proof.
  induction ls as [|x ls IH]; intros ls' H; cbn [try_arg] in H.
  - now injection H as <-.
  - destruct x as [c m|c m|c m o s]; cbn [map advi].
    + destruct (c <? m); [|discriminate].
      destruct (try_arg ls _) as [r'|] eqn:E; [|discriminate]. injection H as <-. cbn. now rewrite (IH r').
    + destruct (c <=? m); [|discriminate].
      destruct (try_arg ls _) as [r'|] eqn:E; [|discriminate]. injection H as <-. cbn. now rewrite (IH r').
    + destruct (_ && _); [|discriminate].
      destruct (try_arg ls _) as [r'|] eqn:E; [|discriminate]. injection H as <-. rewrite (IH r') by reflexivity.
      unfold cost, isum. cbn [alen fold_right]. do 2 f_equal. now rewrite N.add_0_r.
Qed.

Lemma advi_nil ls : map (advi []) ls = ls.
Proof. induction ls as [|[c m|c m|c m o s] ls IH]; cbn; rewrite ?N.add_0_r, ?IH; reflexivity. Qed.
Lemma advi_cons l init x : advi init (advi [l] x) = advi (l :: init) x.
Proof. destruct x as [c m|c m|c m o s]; cbn [advi]; try reflexivity. unfold isum. cbn [fold_right]. f_equal. lia. Qed.

Lemma charge_init_spec : forall init ls t, charge_init ls init = Some t -> t = map (advi init) ls.
Proof.
  induction init as [|l init IH]; intros ls t H; cbn [charge_init] in H.
  - injection H as <-. now rewrite advi_nil.
  - destruct (try_arg ls _) as [ls'|] eqn:E; [|discriminate].
    apply try_arg_init in E. subst ls'. apply IH in H. subst t. rewrite map_map.
    apply map_ext. intros x. apply advi_cons.
Qed.

Lemma try_arg_acc_ok a : forall ls ls', try_arg ls a = Acc ls' -> all_ok ls' [].
Proof.
  induction ls as [|x ls IH]; intros ls' H; cbn [try_arg] in H.
  - injection H as <-. constructor.
  - destruct x as [c m|c m|c m o s].
    + destruct (N.ltb_spec c m); [|discriminate].
      destruct (try_arg ls a) as [r'|] eqn:E; [|discriminate]. injection H as <-.
      constructor; [cbn; unfold len; cbn; destruct (is_initial a); lia|now apply IH].
    + destruct (c <=? m); [|discriminate].
      destruct (try_arg ls a) as [r'|] eqn:E; [|discriminate]. injection H as <-.
      constructor; [cbn; now left|now apply IH].
    + destruct (cost a <=? s); [|discriminate]. cbn [andb] in H.
      destruct (N.leb_spec (c + (cost a + o)) m); [|discriminate].
      destruct (try_arg ls a) as [r'|] eqn:E; [|discriminate]. injection H as <-.
      constructor; [cbn; split; [lia|constructor]|now apply IH].
Qed.

Lemma limiters0_ok c : all_ok (limiters0 c) [].
Proof.
  unfold limiters0, all_ok. repeat (apply Forall_app; split);
    try (destruct (c_n c)); try (destruct (c_L c)); try (destruct (c_s c)); try (destruct (c_replace c)); repeat constructor;
    cbn; unfold len; cbn; try lia.
Qed.

Lemma charge_init_ok : forall init ls t, all_ok ls [] -> charge_init ls init = Some t -> all_ok t [].
Proof.
  induction init as [|l init IH]; intros ls t H0 H; cbn [charge_init] in H.
  - now injection H as <-.
  - destruct (try_arg ls _) as [ls'|] eqn:E; [|discriminate].
    eapply IH; [|exact H]. eapply try_arg_acc_ok; eauto.
Qed.

(* the limits of the property, read off the configuration *)
Definition within_limits (c : config) (b : list arg) : Prop :=
  (forall n, c_n c = Some n -> len b <= n) /\
  (forall l, c_L c = Some l -> b = [] \/ 1 + count_hard (removelast b) <= l) /\
  (forall s, c_s c = Some s -> c_replace c = false -> isum 0 (charged c) + total 0 b <= s /\ Forall (fun a => cost a <= usize_max) b) /\
  (isum 8 (charged c) + total 8 b <= c_sys c /\ Forall (fun a => cost a <= max_single_arg) b).

Lemma all_ok_within c b : all_ok (map (advi (charged c)) (limiters0 c)) b <-> within_limits c b.
Proof.
  unfold within_limits, limiters0, all_ok.
  destruct (c_n c) as [n|], (c_L c) as [l|], (c_s c) as [s|], (c_replace c); cbn [app map advi];
    repeat rewrite Forall_cons_iff; rewrite Forall_nil_iff; cbn [lim_ok]; rewrite ?N.add_0_l;
    (split; [intros H; decompose [and] H; clear H; repeat split; intros; try discriminate;
             repeat match goal with E : Some _ = Some _ |- _ => injection E as <- end; auto
            |intros (H1 & H2 & H3 & H4 & H5); repeat split; auto;
             try (apply H1; reflexivity); try (apply H2; reflexivity); try (apply (H3 _ eq_refl eq_refl))]).
Qed.
