Require Import Expr.
From Coq Require Import List Arith Bool Lia.
Import ListNotations.

(* ---------------- the grammar ---------------- *)
Inductive DUnit : list tok -> expr -> Prop :=
| DU_P p : DUnit [TP p] (EP p)
| DU_Par ts e : DSeq ts e -> DUnit (TL :: ts ++ [TR]) e
| DU_Not ts e : DUnit ts e -> DUnit (TNot :: ts) (ENot e)
with DAnd : list tok -> expr -> Prop :=
| DA_one ts e : DUnit ts e -> DAnd ts e
| DA_juxt ts1 e1 ts2 e2 : DUnit ts1 e1 -> DAnd ts2 e2 -> DAnd (ts1 ++ ts2) (EAnd e1 e2)
| DA_and ts1 e1 ts2 e2 : DUnit ts1 e1 -> DAnd ts2 e2 -> DAnd (ts1 ++ TAnd :: ts2) (EAnd e1 e2)
with DOr : list tok -> expr -> Prop :=
| DO_one ts e : DAnd ts e -> DOr ts e
| DO_or ts1 e1 ts2 e2 : DAnd ts1 e1 -> DOr ts2 e2 -> DOr (ts1 ++ TOr :: ts2) (EOr e1 e2)
with DSeq : list tok -> expr -> Prop :=
| DS_one ts e : DOr ts e -> DSeq ts e
| DS_comma ts1 e1 ts2 e2 : DOr ts1 e1 -> DSeq ts2 e2 -> DSeq (ts1 ++ TComma :: ts2) (EComma e1 e2).

Scheme DUnit_ind' := Induction for DUnit Sort Prop
  with DAnd_ind' := Induction for DAnd Sort Prop
  with DOr_ind' := Induction for DOr Sort Prop
  with DSeq_ind' := Induction for DSeq Sort Prop.
Combined Scheme D_mutind from DUnit_ind', DAnd_ind', DOr_ind', DSeq_ind'.

(* ---------------- semantic facts ---------------- *)
Definition O (tv : nat -> bool) (m : matcher) (s : io) := obs (eval tv m s).

Lemma eval_and tv l s : eval tv (MAnd l) s =
  (fix go (l : list matcher) (s : io) : bool * io :=
     match l with [] => (true, s) | x :: l' =>
     let '(b, s') := eval tv x s in if negb b then (false, s') else if quit s' then (true, s') else go l' s' end) l s.
Proof. reflexivity. Qed.

Lemma O_and_cons tv m l s :
  O tv (MAnd (m :: l)) s = match O tv m s with (Some true, s') => O tv (MAnd l) s' | r => r end.
Proof.
  unfold O. rewrite eval_and. fold (eval tv (MAnd l)).
  destruct (eval tv m s) as [b s'] eqn:E. unfold obs at 2. cbn [fst snd].
  destruct b; cbn [negb].
  - destruct (quit s') eqn:Q; [unfold obs; cbn [fst snd]; now rewrite Q|]. reflexivity.
  - unfold obs. cbn [fst snd]. destruct (quit s'); reflexivity.
Qed.

Lemma O_and_nil tv s : quit s = false -> O tv (MAnd []) s = (Some true, s).
Proof. intros Q. unfold O, obs. cbn. now rewrite Q. Qed.

Lemma O_or_cons tv m l s :
  O tv (MOr (m :: l)) s = match O tv m s with (Some false, s') => O tv (MOr l) s' | r => r end.
Proof.
  unfold O. cbn [eval]. fold (eval tv (MOr l)).
  destruct (eval tv m s) as [b s'] eqn:E. unfold obs at 2. cbn [fst snd].
  destruct b.
  - unfold obs. cbn [fst snd]. destruct (quit s'); reflexivity.
  - destruct (quit s') eqn:Q; [unfold obs; cbn [fst snd]; now rewrite Q|]. reflexivity.
Qed.
Lemma O_or_nil tv s : quit s = false -> O tv (MOr []) s = (Some false, s).
Proof. intros Q. unfold O, obs. cbn. now rewrite Q. Qed.

Lemma eval_list_go tv l rc s : l <> [] ->
  (fix go (l : list matcher) (rc : bool) (s : io) : bool * io :=
     match l with [] => (rc, s) | x :: l' =>
     let '(b, s') := eval tv x s in if quit s' then (b, s') else go l' b s' end) l rc s = eval tv (MList l) s.
Proof. destruct l; [congruence|]. reflexivity. Qed.

Lemma O_list_cons tv m l s : l <> [] ->
  O tv (MList (m :: l)) s = match O tv m s with (Some _, s') => O tv (MList l) s' | r => r end.
Proof.
  intros Hl. unfold O. cbn [eval].
  destruct (eval tv m s) as [b s'] eqn:E. unfold obs at 2. cbn [fst snd].
  destruct (quit s') eqn:Q; [unfold obs; cbn [fst snd]; now rewrite Q|].
  now rewrite eval_list_go.
Qed.
Lemma O_list_one tv m s : O tv (MList [m]) s = O tv m s.
Proof.
  unfold O. cbn [eval]. destruct (eval tv m s) as [b s'] eqn:E. destruct (quit s'); reflexivity.
Qed.

Lemma O_quit_false tv m s b s' : O tv m s = (Some b, s') -> quit s' = false.
Proof. unfold O, obs. destruct (quit (snd (eval tv m s))) eqn:Q; [discriminate|]. now intros [= _ <-]. Qed.

Definition eqv (m : matcher) (e : expr) := forall tv s, quit s = false -> O tv m s = evalE tv e s.

Lemma evalE_quit_false tv e : forall s b s', quit s = false -> evalE tv e s = (Some b, s') -> quit s' = false.
Proof.
  induction e as [p|e IH|e1 IH1 e2 IH2|e1 IH1 e2 IH2|e1 IH1 e2 IH2]; intros s b0 s' Q; cbn [evalE].
  - destruct (eval_prim tv p s) as [b1 s1] eqn:E. destruct (quit s1) eqn:Q1; [discriminate|]. now intros [= _ <-].
  - destruct (evalE tv e s) as [o s1] eqn:E. destruct o; cbn; [|discriminate]. intros [= _ <-]. eauto.
  - destruct (evalE tv e1 s) as [[[|]|] s1] eqn:E.
    + intros H. eapply IH2; [|exact H]. eapply IH1; eauto.
    + intros [= _ <-]. eapply IH1; eauto.
    + discriminate.
  - destruct (evalE tv e1 s) as [[[|]|] s1] eqn:E.
    + intros [= _ <-]. eapply IH1; eauto.
    + intros H. eapply IH2; [|exact H]. eapply IH1; eauto.
    + discriminate.
  - destruct (evalE tv e1 s) as [[b1|] s1] eqn:E.
    + intros H. eapply IH2; [|exact H]. eapply IH1; eauto.
    + discriminate.
Qed.

Lemma eqv_one_and m e : eqv m e -> eqv (MAnd [m]) e.
Proof.
  intros H tv s Q. rewrite O_and_cons, (H tv s Q).
  destruct (evalE tv e s) as [[[|]|] s'] eqn:E; try reflexivity.
  apply O_and_nil. eapply evalE_quit_false; eauto.
Qed.
Lemma eqv_one_or m e : eqv m e -> eqv (MOr [m]) e.
Proof.
  intros H tv s Q. rewrite O_or_cons, (H tv s Q).
  destruct (evalE tv e s) as [[[|]|] s'] eqn:E; try reflexivity.
  apply O_or_nil. eapply evalE_quit_false; eauto.
Qed.
Lemma eqv_one_list m e : eqv m e -> eqv (MList [m]) e.
Proof. intros H tv s Q. rewrite O_list_one. now apply H. Qed.

Lemma eqv_not m e : eqv m e -> eqv (MNot m) (ENot e).
Proof.
  intros H tv s Q. specialize (H tv s Q). unfold O in *. cbn [eval evalE].
  destruct (eval tv m s) as [b s'] eqn:E. rewrite <- H. unfold obs. cbn [fst snd].
  destruct (quit s'); reflexivity.
Qed.
Lemma eqv_notnot m e : eqv m e -> eqv m (ENot (ENot e)).
Proof.
  intros H tv s Q. rewrite (H tv s Q). cbn [evalE]. destruct (evalE tv e s) as [[b|] s']; cbn; [now rewrite negb_involutive|reflexivity].
Qed.

Lemma eqv_and_cons m e1 l e2 : eqv m e1 -> eqv (MAnd l) e2 -> eqv (MAnd (m :: l)) (EAnd e1 e2).
Proof.
  intros H1 H2 tv s Q. rewrite O_and_cons, (H1 tv s Q). cbn [evalE].
  destruct (evalE tv e1 s) as [[[|]|] s'] eqn:E; try reflexivity.
  apply H2. eapply evalE_quit_false; eauto.
Qed.
Lemma eqv_or_cons m e1 l e2 : eqv m e1 -> eqv (MOr l) e2 -> eqv (MOr (m :: l)) (EOr e1 e2).
Proof.
  intros H1 H2 tv s Q. rewrite O_or_cons, (H1 tv s Q). cbn [evalE].
  destruct (evalE tv e1 s) as [[[|]|] s'] eqn:E; try reflexivity.
  apply H2. eapply evalE_quit_false; eauto.
Qed.
Lemma eqv_list_cons m e1 l e2 : l <> [] -> eqv m e1 -> eqv (MList l) e2 -> eqv (MList (m :: l)) (EComma e1 e2).
Proof.
  intros Hl H1 H2 tv s Q. rewrite O_list_cons by assumption. rewrite (H1 tv s Q). cbn [evalE].
  destruct (evalE tv e1 s) as [[b|] s'] eqn:E; try reflexivity.
  apply H2. eapply evalE_quit_false; eauto.
Qed.

(* the single-element collapses performed by the three build() functions are semantically invisible *)
Lemma eqv_b_and l e : l <> [] -> eqv (MAnd l) e -> eqv (b_and l) e.
Proof.
  intros Hl H. destruct l as [|m [|m' l]]; [congruence| |exact H]. cbn.
  intros tv s Q. specialize (H tv s Q). rewrite O_and_cons in H.
  destruct (O tv m s) as [[[|]|] s'] eqn:E; try exact H.
  rewrite O_and_nil in H by (eapply O_quit_false; eauto). exact H.
Qed.
Lemma eqv_b_or l e : l <> [] -> eqv (MOr l) e -> eqv (b_or l) e.
Proof.
  intros Hl H. destruct l as [|m [|m' l]]; [congruence| |exact H]. cbn.
  intros tv s Q. specialize (H tv s Q). rewrite O_or_cons in H.
  destruct (O tv m s) as [[[|]|] s'] eqn:E; try exact H.
  rewrite O_or_nil in H by (eapply O_quit_false; eauto). exact H.
Qed.
Lemma eqv_b_list l e : l <> [] -> eqv (MList l) e -> eqv (b_list l) e.
Proof.
  intros Hl H. destruct l as [|m [|m' l]]; [congruence| |exact H]. cbn.
  intros tv s Q. specialize (H tv s Q). now rewrite O_list_one in H.
Qed.
