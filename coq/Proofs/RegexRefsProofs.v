(* The one-pass check over the flat pattern (a stack of open groups) decides what the recursion over the structure says. *)
Require Import RegexWrap RegexRefs RegexRefsSpec.
From Coq Require Import List Arith Bool Lia.
Import ListNotations.

Definition with_top (st : refst) (g : nat) (began earlier : list nat) (rest : list rframe) : Prop := stack st = (g, began, earlier) :: rest.

Lemma run_refines :
  (forall s st k, stack st <> [] ->
     ref_run st (toks_seq s ++ k) = match vseq (complete st) (opened st) s with
                                | Some (n, v) => ref_run {| opened := n; complete := v; stack := stack st |} k
                                | None => false end) /\
  (forall a st k, stack st <> [] ->
     ref_run st (toks_atom a ++ k) = match vatom (complete st) (opened st) a with
                                 | Some (n, v) => ref_run {| opened := n; complete := v; stack := stack st |} k
                                 | None => false end) /\
  (forall e st k g earlier rest, stack st = (g, complete st, earlier) :: rest ->
     ref_run st (toks_alts e ++ k) = match valts (complete st) earlier (opened st) e with
                                 | Some (n, earlier', v) => ref_run {| opened := n; complete := v; stack := (g, complete st, earlier') :: rest |} k
                                 | None => false end).
Proof.
  apply refs_mutind.
  - (* SNil *) intros st k Hs. cbn [toks_seq vseq app]. destruct st; reflexivity.
  - (* SCons *) intros a IHa s IHs st k Hs. cbn [toks_seq vseq]. rewrite <- app_assoc. rewrite IHa by exact Hs.
    destruct (vatom (complete st) (opened st) a) as [[n v]|]; [|reflexivity].
    rewrite IHs by exact Hs. reflexivity.
  - (* AOth *) intros st k Hs. cbn [toks_atom vatom app ref_run ref_step]. destruct st; reflexivity.
  - (* ARef *) intros n st k Hs. cbn [toks_atom vatom app ref_run ref_step]. destruct (ref_mem n (complete st)); [destruct st; reflexivity|reflexivity].
  - (* AGrp *) intros e IHe st k Hs. cbn [toks_atom vatom app ref_run ref_step]. rewrite <- app_assoc.
    destruct (stack st) as [|f rest] eqn:Est; [congruence|].
    rewrite (IHe _ _ (S (opened st)) [] (f :: rest)) by reflexivity.
    cbn [complete opened].
    destruct (valts (complete st) [] (S (opened st)) e) as [[[n earlier'] v]|]; [|reflexivity].
    cbn [app ref_run ref_step stack opened complete]. reflexivity.
  - (* One *) intros s IHs st k g earlier rest Hs. cbn [toks_alts valts]. rewrite IHs by (rewrite Hs; discriminate).
    destruct (vseq (complete st) (opened st) s) as [[n v]|]; [|reflexivity]. now rewrite Hs.
  - (* More *) intros s IHs e IHe st k g earlier rest Hs. cbn [toks_alts valts]. rewrite <- app_assoc. rewrite IHs by (rewrite Hs; discriminate).
    destruct (vseq (complete st) (opened st) s) as [[n v]|]; [|reflexivity].
    cbn [app ref_run ref_step stack]. rewrite Hs. cbn [opened complete stack].
    rewrite (IHe _ _ g (earlier ++ v) rest) by reflexivity. cbn [complete opened]. reflexivity.
Qed.

Theorem refs_ok_decides : forall e, refs_ok (toks_alts e) = refs_valid e.
Proof.
  intros e. unfold refs_ok, refs_valid. destruct run_refines as (_ & _ & H).
  specialize (H e ref_start [] 0 [] [] eq_refl). rewrite app_nil_r in H. rewrite H. cbn [complete opened ref_start].
  destruct (valts [] [] 0 e) as [[[n earlier'] v]|]; reflexivity.
Qed.
