Require Import Tables TablesOk Printf PrintfSpec.
From Coq Require Import List Arith Bool Lia.
Import ListNotations.

Section P.
Variable so : char -> bool.
Variable value : char -> list char.

(* the body of [parse] with the literal accumulator exposed *)
Definition parse_from (fuel : nat) (acc : list char) (s : list char) : res (list comp) :=
  let '(lit, rest) := take_lit s acc in
  let pre := match lit with [] => [] | _ => [Lit lit] end in
  match rest with
  | [] => Ok pre
  | c :: rest' =>
      let r := if c =? 92 then parse_escape rest' else parse_spec so rest' in
      match r with
      | Err => Err
      | Ok (cmp, rest'') => match parse so fuel rest'' with
                            | Ok l => Ok (pre ++ cmp :: l) | Err => Err end
      end
  end.
Lemma parse_S f s : parse so (S f) s = parse_from f [] s.
Proof. reflexivity. Qed.

Definition good (fuel : nat) (acc : list char) (s : list char) (out : list char) : Prop :=
  exists cs, parse_from fuel acc s = Ok cs /\ render value cs = acc ++ out.

Lemma render_pre lit : render value (match lit with [] => [] | _ => [Lit lit] end) = lit.
Proof. destruct lit; cbn; now rewrite ?app_nil_r. Qed.
Lemma render_pre_app lit r : render value ((match lit with [] => [] | _ => [Lit lit] end) ++ r) = lit ++ render value r.
Proof. destruct lit; reflexivity. Qed.
Lemma render_cons cmp r : cmp <> Flush -> render value (cmp :: r) = render value [cmp] ++ render value r.
Proof. destruct cmp as [s| |d w j|d w j p]; intros H; [cbn; now rewrite app_nil_r|congruence|cbn; now rewrite app_nil_r|cbn; now rewrite app_nil_r]. Qed.

(* a literal character extends the accumulator *)
Lemma good_plain fuel acc c s out : (c =? 37) = false -> (c =? 92) = false ->
  good fuel (acc ++ [c]) s out -> good fuel acc (c :: s) (c :: out).
Proof.
  intros H1 H2 (cs & E & R). exists cs. split.
  - unfold parse_from in *. cbn [take_lit]. rewrite H1, H2. exact E.
  - rewrite R, <- app_assoc. reflexivity.
Qed.

(* a special sequence: the accumulated literal is closed, one component is produced, parsing resumes *)
Lemma good_special fuel acc c s cmp rest out1 out :
  (c =? 37) || (c =? 92) = true ->
  (if c =? 92 then parse_escape s else parse_spec so s) = Ok (cmp, rest) -> cmp <> Flush ->
  render value [cmp] = out1 ->
  length rest < fuel ->
  (forall f, length rest <= f -> good f [] rest out) ->
  good fuel acc (c :: s) (out1 ++ out).
Proof.
  intros Hc Hp Hnf Hr Hf Hrest. destruct fuel as [|f]; [lia|].
  destruct (Hrest f ltac:(lia)) as (cs & E & R). cbn [app] in R.
  exists ((match acc with [] => [] | _ => [Lit acc] end) ++ cmp :: cs). split.
  - unfold parse_from. cbn [take_lit]. rewrite Hc. rewrite Hp. rewrite parse_S, E. reflexivity.
  - rewrite render_pre_app, render_cons by exact Hnf. rewrite Hr, R. reflexivity.
Qed.

(* \c: the accumulated literal is written, and nothing after it - but the rest of the format must still be a format *)
Lemma good_flush fuel acc s out : length s < fuel -> (forall f, length s <= f -> good f [] s out) ->
  good fuel acc (92 :: 99 :: s) [].
Proof.
  intros Hf Hrest. destruct fuel as [|f]; [lia|]. destruct (Hrest f ltac:(lia)) as (cs & E & _).
  exists ((match acc with [] => [] | _ => [Lit acc] end) ++ Flush :: cs). split.
  - unfold parse_from. cbn [take_lit]. change ((92 =? 37) || (92 =? 92)) with true. cbv iota.
    change (92 =? 92) with true. cbv iota. cbn [parse_escape]. change (is_octal 99) with false. cbv iota.
    change (99 =? 99) with true. cbv iota. rewrite parse_S, E. reflexivity.
  - rewrite render_pre_app. cbn [render]. reflexivity.
Qed.

Lemma take_digits_app ds : forall acc rest, forallb is_digit ds = true ->
  (match rest with c :: _ => is_digit c = false | [] => True end) ->
  take_digits (ds ++ rest) acc = (acc ++ ds, rest).
Proof.
  induction ds as [|d ds IH]; intros acc rest Hd Hr.
  - cbn [app]. rewrite app_nil_r. destruct rest as [|c rest]; [reflexivity|]. cbn. now rewrite Hr.
  - cbn [forallb] in Hd. apply andb_true_iff in Hd as [H1 H2]. cbn [app take_digits]. rewrite H1.
    rewrite IH by assumption. now rewrite <- app_assoc.
Qed.

(* facts about the tables (regenerated from the source, pinned by TablesOk) *)
Lemma directive_letter d : assoc d printf_directives <> None ->
  is_digit d = false /\ (d =? 32) = false /\ (d =? 45) = false /\ (d =? 37) = false /\ (d =? 46) = false.
Proof.
  rewrite printf_directives_ok. cbn [assoc].
  repeat match goal with |- context [d =? ?k] => destruct (Nat.eqb_spec d k) as [->|_]; [intros _; repeat split; reflexivity|] end.
  congruence.
Qed.
Lemma escape_letter l : assoc l printf_escapes <> None -> (l =? 99) = false.
Proof.
  rewrite printf_escapes_ok. cbn [assoc].
  repeat match goal with |- context [l =? ?k] => destruct (Nat.eqb_spec l k) as [->|_]; [intros _; reflexivity|] end.
  congruence.
Qed.

Lemma octal_is_ascii c : is_octal c = true -> utf8_len c = 1.
Proof. unfold is_octal, utf8_len. intros H. apply andb_true_iff in H as [_ H]. apply Nat.leb_le in H.
  destruct (Nat.ltb_spec c 128); [reflexivity|lia]. Qed.

Lemma split_bytes_ascii n c s : utf8_len c = 1 ->
  split_bytes (S n) (c :: s) = match split_bytes n s with Some (a, b) => Some (c :: a, b) | None => None end.
Proof.
  intros H. cbn [split_bytes]. rewrite H. cbn [Nat.leb]. replace (S n - 1) with n by lia. reflexivity.
Qed.

Lemma split_bytes_0 s : split_bytes 0 s = Some ([], s).
Proof. destruct s; reflexivity. Qed.

Theorem parse_show : forall items fuel acc, forallb wf_item items = true -> length (show items) <= fuel ->
  good fuel acc (show items) (render_ref value items).
Proof.
  induction items as [|i items IH]; intros fuel acc Hwf Hf.
  - exists (match acc with [] => [] | _ => [Lit acc] end). split; [unfold parse_from; cbn; reflexivity|]. cbn. now rewrite render_pre, app_nil_r.
  - cbn [forallb] in Hwf. apply andb_true_iff in Hwf as [Hi Hwf].
    unfold show in *. cbn [map concat] in *. fold (show items) in *.
    rewrite app_length in Hf.
    assert (Hrest : forall f, length (show items) <= f -> good f [] (show items) (render_ref value items)) by (intros f Hl; now apply IH).
    destruct i as [c|l|a b c| |d ds j]; cbn [show_item render_item render_ref] in *.
    + (* a character *)
      destruct (c =? 37) eqn:E37; [|destruct (c =? 92) eqn:E92].
      * apply Nat.eqb_eq in E37. subst c. cbn [app length] in *.
        apply (good_special fuel acc 37 (37 :: show items) (Lit [37]) (show items) [37]);
          [reflexivity|cbn; reflexivity|discriminate|cbn; reflexivity|lia|exact Hrest].
      * apply Nat.eqb_eq in E92. subst c. cbn [app length] in *.
        apply (good_special fuel acc 92 (92 :: show items) (Lit [92]) (show items) [92]);
          [reflexivity| |discriminate|cbn; reflexivity|lia|exact Hrest].
        cbn [Nat.eqb parse_escape]. change (is_octal 92) with false. cbv iota. change (92 =? 99) with false. cbv iota.
        rewrite printf_escapes_ok. reflexivity.
      * cbn [app length] in *. apply good_plain; auto. apply IH; [assumption|lia].
    + (* \l *)
      apply andb_true_iff in Hi as [Hi Hc]. apply andb_true_iff in Hi as [Hi Ho].
      apply negb_true_iff in Ho, Hc. cbn [app length] in *.
      destruct (assoc l printf_escapes) as [e|] eqn:Ea; [|discriminate].
      apply (good_special fuel acc 92 (l :: show items) (Lit [e]) (show items) [e]);
        [reflexivity| |discriminate|cbn; reflexivity|lia|exact Hrest].
      cbn [Nat.eqb parse_escape]. rewrite Ho, Hc, Ea. reflexivity.
    + (* \NNN *)
      apply andb_true_iff in Hi as [Hi Hc]. apply andb_true_iff in Hi as [Ha Hb]. cbn [app length] in *.
      apply (good_special fuel acc 92 (a :: b :: c :: show items) (Lit (oct_out a b c)) (show items)
               (oct_out a b c)); [reflexivity| |discriminate|cbn [render]; apply app_nil_r|lia|exact Hrest].
      cbn [Nat.eqb parse_escape]. rewrite Ha.
      assert (Hs : split_bytes 3 (a :: b :: c :: show items) = Some ([a; b; c], show items)).
      { rewrite !split_bytes_ascii by (apply octal_is_ascii; assumption). rewrite split_bytes_0. reflexivity. }
      rewrite Hs, Ha, Hb, Hc. reflexivity.
    + (* \c *)
      cbn [app length] in *.
      apply (good_flush fuel acc (show items) (render_ref value items)); [lia|exact Hrest].
    + (* %[-]WIDTHd *)
      apply andb_true_iff in Hi as [Hi Hl]. apply andb_true_iff in Hi as [Hi Hd]. apply andb_true_iff in Hi as [Hi Ht].
      apply negb_true_iff in Ht. apply Nat.leb_le in Hl.
      destruct (assoc d printf_directives) as [k|] eqn:Ea; [|discriminate].
      destruct (directive_letter d ltac:(congruence)) as (Hdd & H32 & H45 & H37 & H46).
      cbn [app length] in Hf |- *.
      rewrite <- !app_assoc.
      apply (good_special fuel acc 37 ((match j with JLeft => [45] | JRight => [] end) ++ ds ++ [d] ++ show items)
               (Dir d (width_ref ds) j) (show items) (pad (width_ref ds) j (value d)));
        [reflexivity| |discriminate|cbn; now rewrite app_nil_r| |exact Hrest].
      * cbn [Nat.eqb]. unfold parse_spec.
        assert (Hsk : skip_flags ((match j with JLeft => [45] | JRight => [] end) ++ ds ++ [d] ++ show items) JRight =
                      Ok (j, ds ++ [d] ++ show items)).
        { assert (Hnf : forall jj, skip_flags (ds ++ [d] ++ show items) jj = Ok (jj, ds ++ [d] ++ show items)).
          { intros jj. destruct ds as [|x ds']; cbn [app skip_flags].
            - now rewrite H32, H45.
            - cbn [forallb] in Hd. apply andb_true_iff in Hd as [Hx _]. unfold is_digit in Hx. apply andb_true_iff in Hx as [X1 X2].
              apply Nat.leb_le in X1, X2. destruct (Nat.eqb_spec x 32); [lia|]. destruct (Nat.eqb_spec x 45); [lia|]. reflexivity. }
          destruct j; cbn [app skip_flags]; [|apply Hnf]. cbn [Nat.eqb]. apply Hnf. }
        rewrite Hsk. rewrite take_digits_app by (assumption || exact Hdd). cbn [app].
        unfold width_of, width_ref. destruct ds as [|x ds'].
        -- cbn [app]. rewrite H46. cbv zeta iota beta. rewrite H37, Ht, Ea. reflexivity.
        -- destruct (Nat.ltb_spec 9 (length (x :: ds'))); [lia|]. cbn [app]. rewrite H46. cbv zeta iota beta. rewrite H37, Ht, Ea. reflexivity.
      * rewrite !app_length in Hf. cbn [length] in Hf. lia.
Qed.

(* the format language is rendered as documented: every escape and %% becomes its character, every
   directive its (padded) value, every other character is copied verbatim, nothing is appended *)
Theorem printf_renders items : forallb wf_item items = true ->
  run_printf so value (show items) = Ok (render_ref value items).
Proof.
  intros H. unfold run_printf. rewrite parse_S.
  destruct (parse_show items (length (show items)) [] H (le_n _)) as (cs & E & R). rewrite E. cbn [app] in R. now rewrite R.
Qed.
End P.

(* width and justification: at least [w] characters, the value kept whole, blanks on the documented side *)
Theorem pad_spec w j v : exists fill, Forall (fun c => c = 32) fill /\
  pad (Some w) j v = (match j with JLeft => v ++ fill | JRight => fill ++ v end) /\
  w <= length (pad (Some w) j v) /\ (length v <= w -> length (pad (Some w) j v) = w) /\ (w <= length v -> pad (Some w) j v = v).
Proof.
  exists (repeat 32 (w - length v)). split; [|split; [|split; [|split]]].
  - apply Forall_forall. intros c Hc. now apply repeat_spec in Hc.
  - unfold pad. destruct j; reflexivity.
  - unfold pad. cbv zeta. destruct j; rewrite app_length, repeat_length; [rewrite Nat.add_comm|]; apply Nat.sub_add_le.
  - intros H. unfold pad. cbv zeta. destruct j; rewrite app_length, repeat_length; [rewrite Nat.add_comm|]; apply Nat.sub_add; exact H.
  - intros H. unfold pad. cbv zeta. replace (w - length v) with 0 by (symmetry; apply Nat.sub_0_le; exact H). cbn [repeat]. destruct j; cbn [app]; now rewrite ?app_nil_r.
Qed.
