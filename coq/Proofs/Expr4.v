Require Import Expr Expr3.
From Coq Require Import List Arith Bool Lia.
Import ListNotations.

Definition mk stk s b pl := {| stack := stk; sg := s; inv := b; prevL := pl |}.
Definition with_cur (s : sigma) (c : list matcher) := {| ors := ors s; ands := ands s; cur := c |}.

Definition starts_unit (ts : list tok) : Prop :=
  match ts with TP _ :: _ | TNot :: _ | TL :: _ => True | _ => False end.

Lemma starts_all :
  (forall ts e, DUnit ts e -> starts_unit ts) /\ (forall ts e, DAnd ts e -> starts_unit ts) /\
  (forall ts e, DOr ts e -> starts_unit ts) /\ (forall ts e, DSeq ts e -> starts_unit ts).
Proof.
  assert (app_su : forall a b, starts_unit a -> starts_unit (a ++ b)).
  { intros [|[]] b; cbn; tauto. }
  apply D_mutind; intros; cbn; auto.
Qed.

Lemma more_app ts tail : starts_unit ts -> more (ts ++ tail) = true.
Proof. destruct ts as [|[] ts]; cbn; tauto. Qed.

Lemma eqv_prim p : eqv (MPrim p) (EP p).
Proof. intros tv s Q. unfold O, obs. cbn [eval evalE]. destruct (eval_prim tv p s) as [b s']. reflexivity. Qed.

Lemma nonempty_app {A} (l : list A) x : nonempty (l ++ [x]) = true.
Proof. destruct l; reflexivity. Qed.
Lemma nonempty_ne {A} (l : list A) : l <> [] -> nonempty l = true.
Proof. destruct l; [congruence|reflexivity]. Qed.
Lemma app_ne {A} (l : list A) x : l ++ [x] <> []. Proof. destruct l; discriminate. Qed.

Definition PU ts e (_ : DUnit ts e) := forall stk s (b : bool) pl, exists m, eqv m (if b then ENot e else e) /\
  forall tail, run (mk stk s b pl) (ts ++ tail) = run (mk stk (push m s) false false) tail.
Definition PA ts e (_ : DAnd ts e) := forall stk s pl, exists ms, ms <> [] /\ eqv (MAnd ms) e /\
  forall tail, run (mk stk s false pl) (ts ++ tail) = run (mk stk (with_cur s (cur s ++ ms)) false false) tail.
Definition PO ts e (_ : DOr ts e) := forall stk s pl, cur s = [] -> exists cl ms, ms <> [] /\
  eqv (MOr (cl ++ [b_and ms])) e /\
  forall tail, run (mk stk s false pl) (ts ++ tail)
             = run (mk stk {| ors := ors s; ands := ands s ++ cl; cur := ms |} false false) tail.
Definition PS ts e (_ : DSeq ts e) := forall stk s pl, cur s = [] -> ands s = [] -> exists clo cl ms, ms <> [] /\
  eqv (MList (clo ++ [b_or (cl ++ [b_and ms])])) e /\
  forall tail, run (mk stk s false pl) (ts ++ tail)
             = run (mk stk {| ors := ors s ++ clo; ands := cl; cur := ms |} false false) tail.

Lemma run_cons st t rest : run st (t :: rest) = match step st t rest with Ok st' => run st' rest | Error => Error end.
Proof. reflexivity. Qed.

Theorem build_complete_mut :
  (forall ts e d, PU ts e d) /\ (forall ts e d, PA ts e d) /\ (forall ts e d, PO ts e d) /\ (forall ts e d, PS ts e d).
Proof.
  destruct starts_all as (SU & SA & SO & SS).
  apply D_mutind.
  - (* primary *)
    intros p stk s b pl. exists (mnot b (MPrim p)). split.
    + destruct b; cbn; [apply eqv_not|]; apply eqv_prim.
    + intros tail. reflexivity.
  - (* parentheses *)
    intros ts e d IH stk s b pl.
    destruct (IH ((s, b) :: stk) sigma0 true eq_refl eq_refl) as (clo & cl & ms & Hms & Heq & Hrun).
    exists (mnot b (b_list (clo ++ [b_or (cl ++ [b_and ms])]))). split.
    + assert (E : eqv (b_list (clo ++ [b_or (cl ++ [b_and ms])])) e) by (apply eqv_b_list; [apply app_ne|exact Heq]).
      destruct b; cbn; [now apply eqv_not|exact E].
    + intros tail. cbn [app]. rewrite run_cons. cbn [step mk stack sg inv].
      rewrite <- app_assoc. cbn [app]. fold (mk ((s, b) :: stk) sigma0 false true). rewrite Hrun.
      rewrite run_cons. reflexivity.
  - (* negation *)
    intros ts e d IH stk s b pl.
    destruct (IH stk s (negb b) false) as (m & Heq & Hrun). exists m. split.
    + destruct b; cbn in *; [now apply eqv_notnot|exact Heq].
    + intros tail. cbn [app]. rewrite run_cons. cbn [step]. rewrite more_app by (eapply SU; eauto).
      cbn [mk stack sg inv]. fold (mk stk s (negb b) false). apply Hrun.
  - (* a single unit is an and-group *)
    intros ts e d IH stk s pl. destruct (IH stk s false pl) as (m & Heq & Hrun).
    exists [m]. repeat split; [discriminate|now apply eqv_one_and|]. intros tail. rewrite Hrun. reflexivity.
  - (* juxtaposition *)
    intros ts1 e1 ts2 e2 d1 IH1 d2 IH2 stk s pl.
    destruct (IH1 stk s false pl) as (m1 & Heq1 & Hrun1).
    destruct (IH2 stk (push m1 s) false) as (ms2 & Hne & Heq2 & Hrun2).
    exists (m1 :: ms2). repeat split; [discriminate|now apply eqv_and_cons|].
    intros tail. rewrite <- app_assoc, Hrun1, Hrun2. unfold with_cur, push. cbn [ors ands cur].
    now rewrite <- app_assoc.
  - (* -a *)
    intros ts1 e1 ts2 e2 d1 IH1 d2 IH2 stk s pl.
    destruct (IH1 stk s false pl) as (m1 & Heq1 & Hrun1).
    destruct (IH2 stk (push m1 s) false) as (ms2 & Hne & Heq2 & Hrun2).
    exists (m1 :: ms2). repeat split; [discriminate|now apply eqv_and_cons|].
    intros tail. rewrite <- app_assoc, Hrun1. cbn [app]. rewrite run_cons. cbn [step mk sg inv stack].
    rewrite more_app by (eapply SA; eauto). unfold push at 1. cbn [cur]. rewrite nonempty_app. cbn [andb].
    fold (mk stk (push m1 s) false false). rewrite Hrun2. unfold with_cur, push. cbn [ors ands cur].
    now rewrite <- app_assoc.
  - (* a single and-group is an or-group *)
    intros ts e d IH stk s pl Hc. destruct (IH stk s pl) as (ms & Hne & Heq & Hrun).
    exists [], ms. repeat split; [exact Hne|cbn [app]; apply eqv_one_or; now apply eqv_b_and|].
    intros tail. rewrite Hrun. unfold with_cur. now rewrite Hc, app_nil_r.
  - (* -o *)
    intros ts1 e1 ts2 e2 d1 IH1 d2 IH2 stk s pl Hc.
    destruct (IH1 stk s pl) as (ms1 & Hne1 & Heq1 & Hrun1). rewrite Hc in Hrun1. cbn [app] in Hrun1.
    destruct (IH2 stk (new_or (with_cur s ms1)) false eq_refl) as (cl2 & ms2 & Hne2 & Heq2 & Hrun2).
    exists (b_and ms1 :: cl2), ms2. repeat split; [exact Hne2| |].
    + cbn [app]. apply eqv_or_cons; [now apply eqv_b_and|exact Heq2].
    + intros tail. rewrite <- app_assoc, Hrun1. cbn [app]. rewrite run_cons. cbn [step mk sg inv stack].
      rewrite more_app by (eapply SO; eauto). unfold with_cur at 1. cbn [cur].
      rewrite nonempty_ne by assumption. cbn [andb].
      fold (mk stk (new_or (with_cur s ms1)) false false). rewrite Hrun2.
      unfold new_or, with_cur. cbn [ors ands cur]. now rewrite <- app_assoc.
  - (* a single or-group is a list *)
    intros ts e d IH stk s pl Hc Ha. destruct (IH stk s pl Hc) as (cl & ms & Hne & Heq & Hrun).
    exists [], cl, ms. repeat split; [exact Hne|cbn [app]; apply eqv_one_list; apply eqv_b_or; [apply app_ne|exact Heq]|].
    intros tail. rewrite Hrun. now rewrite Ha, app_nil_r.
  - (* , *)
    intros ts1 e1 ts2 e2 d1 IH1 d2 IH2 stk s pl Hc Ha.
    destruct (IH1 stk s pl Hc) as (cl1 & ms1 & Hne1 & Heq1 & Hrun1).
    destruct (IH2 stk (new_list {| ors := ors s; ands := ands s ++ cl1; cur := ms1 |}) false eq_refl eq_refl)
      as (clo2 & cl2 & ms2 & Hne2 & Heq2 & Hrun2).
    exists (b_or (cl1 ++ [b_and ms1]) :: clo2), cl2, ms2. repeat split; [exact Hne2| |].
    + cbn [app]. apply eqv_list_cons; [apply app_ne|apply eqv_b_or; [apply app_ne|exact Heq1]|exact Heq2].
    + intros tail. rewrite <- app_assoc, Hrun1. cbn [app]. rewrite run_cons. cbn [step mk sg inv stack cur].
      rewrite more_app by (eapply SS; eauto). rewrite nonempty_ne by assumption. cbn [andb].
      fold (mk stk (new_list {| ors := ors s; ands := ands s ++ cl1; cur := ms1 |}) false false).
      rewrite Hrun2. unfold new_list. cbn [ors ands cur]. rewrite Ha. cbn [app]. now rewrite <- app_assoc.
Qed.

(* every sentence of the grammar is accepted, and the tree built evaluates exactly as the grammar prescribes *)
Theorem build_complete ts e : DSeq ts e -> exists m, run st0 ts = Ok m /\ eqv m e.
Proof.
  intros d. destruct build_complete_mut as (_ & _ & _ & HS).
  destruct (HS ts e d [] sigma0 false eq_refl eq_refl) as (clo & cl & ms & Hne & Heq & Hrun).
  exists (b_list (clo ++ [b_or (cl ++ [b_and ms])])). split.
  - specialize (Hrun []). rewrite app_nil_r in Hrun. exact Hrun.
  - apply eqv_b_list; [apply app_ne|exact Heq].
Qed.
Check build_complete.
Print Assumptions build_complete.
