(* find ROOT ... -print0 | xargs -0: the composition of the printed path (Paths) and the reader (PrintPipe) *)
Require Import PathModel Paths PathsProofs XRead PrintPipe.
From Coq Require Import List Arith Bool Lia.
Import ListNotations.

Lemma slash_join_no d names : d <> SL -> Forall (fun n => ~ In d n) names -> ~ In d (slash_join names).
Proof.
  intros Hd. induction names as [|n ns IH]; intros H; [intros []|].
  inversion H as [|? ? Hn Hns]; subst. destruct ns as [|m ns]; [exact Hn|].
  change (slash_join (n :: m :: ns)) with (n ++ [SL] ++ slash_join (m :: ns)).
  rewrite !in_app_iff. intros [I|[I|I]]; [now apply Hn| |now apply IH].
  destruct I as [I|[]]. congruence.
Qed.

(* the path printed for an entry is a string the reader gives back whole: no terminator inside, not empty *)
Lemma entry_path_good d root names : d <> SL -> good d root -> Forall plainname names -> Forall (fun n => ~ In d n) names ->
  good d (entry_path root names).
Proof.
  intros Hd [Hr Hnr] Hp Hn. destruct names as [|n ns].
  - cbn. split; assumption.
  - rewrite entry_path_shape by (try assumption; congruence). split.
    + destruct root; [congruence|discriminate].
    + rewrite !in_app_iff. intros [I|[I|I]]; [now apply Hnr| |revert I; now apply slash_join_no].
      unfold sep_after in I. destruct (_ || _); [destruct I|]. destruct I as [I|[]]. congruence.
Qed.

Theorem pipeline_exact d (entries : list (str * list str)) chunks : d <> SL ->
  Forall (fun e => good d (fst e) /\ Forall plainname (snd e) /\ Forall (fun n => ~ In d n) (snd e)) entries ->
  concat chunks = concat (map (fun e => print_with d (entry_path (fst e) (snd e))) entries) ->
  bd_read d chunks = map (fun e => entry_path (fst e) (snd e)) entries.
Proof.
  intros Hd H E. apply print_read_roundtrip.
  - rewrite Forall_map. eapply Forall_impl; [|exact H]. intros [r ns] (Hr & Hp & Hn). now apply entry_path_good.
  - rewrite map_map. exact E.
Qed.
