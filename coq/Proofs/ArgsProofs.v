Require Import Tables TablesOk Expr Expr3 Expr4 Expr5 ExprSide Args.
From Coq Require Import List Arith Bool Lia.
Import ListNotations.

Section P.
Variable valid : str -> list str -> bool.
Variable newer_xy : str -> bool.
Notation lex := (lex valid newer_xy).
Notation parse_argv := (parse_argv valid newer_xy).

(* whatever is accepted is lexically valid and a sentence of the grammar (or empty, or a help request) *)
Theorem accepted_is_sentence argv m : parse_argv argv = Ok m ->
  (exists ts, lex (S (length argv)) 1 argv = LOk ts /\ (ts = [] \/ exists e, DSeq ts e)) \/
  (exists ts, lex (S (length argv)) 1 argv = LHelp ts).
Proof.
  unfold Args.parse_argv. destruct (lex _ _ argv) as [ts| |ts] eqn:E; [|discriminate|right; eauto].
  intros H. left. exists ts. split; [reflexivity|].
  unfold build_top in H. destruct (run st0 ts) as [m0|] eqn:Er; [|discriminate].
  apply build_sound in Er. exact Er.
Qed.

(* a token that is not an operator, a parenthesis, -exec, help, a known primary or -newerXY is rejected *)
Definition structural (a : str) : bool :=
  str_eqb a s_lp || str_eqb a s_rp || str_eqb a s_bang || str_eqb a s_not || str_eqb a s_a || str_eqb a s_and ||
  str_eqb a s_o || str_eqb a s_or || str_eqb a s_comma || is_one_of a helpish || str_eqb a s_exec || str_eqb a s_execdir.

Theorem unknown_primary_rejected a rest f pos : structural a = false -> lookup a primaries = None -> newer_xy a = false ->
  lex (S f) pos (a :: rest) = LErr.
Proof.
  intros Hs Hl Hn. unfold structural in Hs. repeat (apply orb_false_iff in Hs; destruct Hs as [Hs ?]).
  cbn [Args.lex]. repeat match goal with H : str_eqb _ _ = false |- _ => rewrite H; clear H end.
  match goal with H : is_one_of _ _ = false |- _ => rewrite H end. cbn [orb]. rewrite Hl, Hn. reflexivity.
Qed.

(* a primary with fewer arguments left than it has operands is rejected *)
Theorem missing_operand_rejected a rest f pos arity k : structural a = false -> lookup a primaries = Some (arity, k) ->
  length rest < arity -> lex (S f) pos (a :: rest) = LErr.
Proof.
  intros Hs Hl Hlen. unfold structural in Hs. repeat (apply orb_false_iff in Hs; destruct Hs as [Hs ?]).
  cbn [Args.lex]. repeat match goal with H : str_eqb _ _ = false |- _ => rewrite H; clear H end.
  match goal with H : is_one_of _ _ = false |- _ => rewrite H end. cbn [orb]. rewrite Hl.
  destruct (Nat.ltb_spec (length rest) arity); [reflexivity|lia].
Qed.

(* an operand its primary's validator refuses makes the command line invalid *)
Theorem invalid_operand_rejected a rest f pos arity k : structural a = false -> lookup a primaries = Some (arity, k) ->
  valid a (firstn arity rest) = false -> lex (S f) pos (a :: rest) = LErr.
Proof.
  intros Hs Hl Hv. unfold structural in Hs. repeat (apply orb_false_iff in Hs; destruct Hs as [Hs ?]).
  cbn [Args.lex]. repeat match goal with H : str_eqb _ _ = false |- _ => rewrite H; clear H end.
  match goal with H : is_one_of _ _ = false |- _ => rewrite H end. cbn [orb]. rewrite Hl.
  destruct (length rest <? arity); [reflexivity|]. now rewrite Hv.
Qed.

(* -exec without a terminating ';' or '{} +' is rejected *)
Lemma exec_scan_none prev : forall args acc,
  (forall x, In x args -> str_eqb x s_semi = false) -> (forall x, In x args -> str_eqb x s_plus = false) ->
  exec_scan prev args acc = None.
Proof.
  intros args. revert prev. induction args as [|a args IH]; intros prev acc H1 H2; [reflexivity|].
  cbn [exec_scan]. rewrite (H1 a) by now left. rewrite (H2 a) by now left. rewrite andb_false_r.
  apply IH; intros x Hx; [apply H1|apply H2]; now right.
Qed.
Theorem exec_needs_terminator rest f pos :
  (forall x, In x rest -> str_eqb x s_semi = false) -> (forall x, In x rest -> str_eqb x s_plus = false) ->
  lex (S f) pos (s_exec :: rest) = LErr.
Proof.
  intros H1 H2. cbn [Args.lex]. change (str_eqb s_exec s_lp) with false. change (str_eqb s_exec s_rp) with false.
  change (str_eqb s_exec s_bang || str_eqb s_exec s_not) with false. change (str_eqb s_exec s_a || str_eqb s_exec s_and) with false.
  change (str_eqb s_exec s_o || str_eqb s_exec s_or) with false. change (str_eqb s_exec s_comma) with false.
  change (is_one_of s_exec helpish) with false. change (str_eqb s_exec s_exec || str_eqb s_exec s_execdir) with true. cbv iota.
  now rewrite exec_scan_none.
Qed.
End P.

(* the table: every documented primary is there with its operand count; the action primaries are exactly these *)
Theorem action_primaries :
  map fst (filter (fun p => snd (snd p) =? 1) primaries) =
  [ [45; 100; 101; 108; 101; 116; 101]; [45; 102; 108; 115]; [45; 102; 112; 114; 105; 110; 116]; [45; 102; 112; 114; 105; 110; 116; 48];
    [45; 102; 112; 114; 105; 110; 116; 102]; [45; 108; 115]; [45; 112; 114; 105; 110; 116]; [45; 112; 114; 105; 110; 116; 48];
    [45; 112; 114; 105; 110; 116; 102] ] /\ exec_is_action = true.
Proof. split; reflexivity. Qed.
