(* Extraction of the executable models for the correspondence checks.
   Only ExtrOcamlBasic's directives are used (bool, option, unit, list, prod, sumbool, sumor,
   andb, orb); nat, N, Z, positive stay the extracted inductives. *)
Require Import ExtrOcamlBasic.
Require Import XRead XArgs XReplace Walk Expr Find Numeric Glob PathModel Paths ExecSingle Delete ExecMulti ExecLimits Entry Regex Printf PrintfValue.
Separate Extraction XRead.ws_read XRead.bd_read XArgs.xargs_run XArgs.sys_budget XReplace.replace_argv XReplace.normalize Walk.walk Find.find_main_model Expr.eval_file Numeric.size_test Numeric.num_test Numeric.age_test Numeric.newer Numeric.mode_bits_match Glob.glob_match Glob.glob_text Paths.entry_path Paths.starting_points Paths.files0_names ExecSingle.exec_argv ExecSingle.exec_cwd PathModel.parent PathModel.file_name PathModel.join PathModel.strip_prefix Delete.delete_run ExecMulti.run ExecLimits.argmax_budget ExecLimits.kernel_accepts_b ExecLimits.kernel_limit Entry.seen Entry.seen_xtype Entry.lname_applies Regex.matches Regex.Plus Regex.Opt Regex.Interval Printf.run_printf PrintfValue.pv_f PrintfValue.pv_h PrintfValue.pv_H PrintfValue.pv_P.
