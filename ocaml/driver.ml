(* Line-protocol driver around the extracted Coq models.
   One case per input line, first word selects the model, one result line per case. *)
open Datatypes

let nat_tab = Array.make 1200 O
let () = for i = 1 to 1199 do nat_tab.(i) <- S nat_tab.(i-1) done
let rec nat_of_int n = if n < 1200 then nat_tab.(n) else S (nat_of_int (n-1))
let int_of_nat n = let rec go acc = function O -> acc | S m -> go (acc+1) m in go 0 n

let hexval c = match c with
  | '0'..'9' -> Char.code c - 48 | 'a'..'f' -> Char.code c - 87 | 'A'..'F' -> Char.code c - 55
  | _ -> failwith "hex"
(* hex string -> list of bytes as nat *)
let bytes_of_hex s =
  let n = String.length s / 2 in
  let rec go i acc = if i < 0 then acc
    else go (i-1) (nat_of_int (hexval s.[2*i] * 16 + hexval s.[2*i+1]) :: acc) in
  if s = "-" then [] else go (n-1) []
let hex_of_bytes l =
  if l = [] then "-" else begin
    let b = Buffer.create 16 in
    Stdlib.List.iter (fun c -> Buffer.add_string b (Stdlib.Printf.sprintf "%02x" (int_of_nat c))) l;
    Buffer.contents b end
let split_on c s = if s = "" then [] else String.split_on_char c s
let chunks_of s = if s = "-" then [] else Stdlib.List.map bytes_of_hex (split_on ',' s)

let handle_xread words =
  match words with
  | [("ws" | "wl") as mode; cs] ->
    (* wl: the whole-line reader of -I *)
    (match XRead.ws_read (mode = "wl") (chunks_of cs) with
     | XRead.Err -> "err"
     | XRead.Ok l -> String.concat " " ("ok" :: Stdlib.List.map (fun (t, h) -> hex_of_bytes t ^ (if h then ":1" else ":0")) l))
  | ["bd"; d; cs] ->
    let l = XRead.bd_read (nat_of_int (int_of_string d)) (chunks_of cs) in
    String.concat " " ("ok" :: Stdlib.List.map (fun t -> hex_of_bytes t ^ ":1") l)
  | _ -> "badcase"

(* ---- binary numbers ---- *)
let rec pos_of_int n = if n = 1 then BinNums.Coq_xH
  else if n land 1 = 0 then BinNums.Coq_xO (pos_of_int (n lsr 1)) else BinNums.Coq_xI (pos_of_int (n lsr 1))
let n_of_int n = if n = 0 then BinNums.N0 else BinNums.Npos (pos_of_int n)
let rec int_of_pos = function BinNums.Coq_xH -> 1 | BinNums.Coq_xO p -> 2 * int_of_pos p | BinNums.Coq_xI p -> 2 * int_of_pos p + 1
let int_of_n = function BinNums.N0 -> 0 | BinNums.Npos p -> int_of_pos p
let list_of s = if s = "~" then [] else split_on ',' s
let opt_n s = if s = "-" then None else Some (n_of_int (int_of_string s))

(* xargs n L s x r argmax env(k:v,..) initlens replace args(len:kind,..) input_err outcomes *)
let handle_xargs words =
  match words with
  | [n; l; s; x; r; argmax; env; init; repl; args; ierr; outs] ->
    let env = Stdlib.List.map (fun kv -> match split_on ':' kv with
        | [k; v] -> (n_of_int (int_of_string k), n_of_int (int_of_string v)) | _ -> failwith "env") (list_of env) in
    let c = { XArgs.c_n = opt_n n; c_L = opt_n l; c_s = opt_n s; c_x = (x = "1"); c_r = (r = "1");
              c_sys = XArgs.sys_budget (n_of_int (int_of_string argmax)) env;
              c_init = Stdlib.List.map (fun v -> n_of_int (int_of_string v)) (list_of init);
              c_replace = (repl <> "0");
              (* "1:<|R|>:<occurrences of R in each of the command and initial arguments>": the lengths once a line is put in *)
              c_subst = (let lens = Stdlib.List.map int_of_string (list_of init) in
                         match split_on ':' repl with
                         | [_; rlen; occs] ->
                           let occs = Stdlib.List.map int_of_string (split_on '.' occs) in
                           (fun len -> Stdlib.List.map2 (fun l o -> n_of_int (l + o * (int_of_n len) - o * (int_of_string rlen))) lens occs)
                         | _ -> (fun _ -> Stdlib.List.map n_of_int lens)) } in
    let args = Stdlib.List.mapi (fun i a -> match split_on ':' a with
        | [len; k] -> { XArgs.aid = n_of_int i; alen = n_of_int (int_of_string len);
                        akind = (if k = "h" then XArgs.Hard else XArgs.Soft) }
        | _ -> failwith "arg") (list_of args) in
    let outs = Stdlib.List.map (fun o ->
        if o = "nf" then XArgs.NotFound else if o = "cr" then XArgs.CannotRun
        else if o.[0] = 's' then XArgs.Signal
        else XArgs.Exit (n_of_int (int_of_string (String.sub o 1 (String.length o - 1))))) (list_of outs) in
    let (code, bs) = XArgs.xargs_run c args (ierr = "1") outs in
    let show b = if b = [] then "~" else String.concat "," (Stdlib.List.map (fun a -> string_of_int (int_of_n a.XArgs.aid)) b) in
    String.concat " " (string_of_int (int_of_n code) :: Stdlib.List.map show bs)
  | _ -> "badcase"

(* xrepl R line cmd(hex list) -> argv hex list *)
let handle_xrepl words =
  match words with
  | [r; line; cmd] ->
    let argv = XReplace.replace_argv (bytes_of_hex r) (bytes_of_hex line) (Stdlib.List.map bytes_of_hex (list_of cmd)) in
    String.concat "," (Stdlib.List.map hex_of_bytes argv)
  | _ -> "badcase"

(* xnorm n L repl i_n i_l i_r -> effective n L repl *)
let handle_xnorm words =
  match words with
  | [seq] ->
    let opt tok =
      if tok = "I" then XReplace.OI
      else if tok.[0] = 'n' then XReplace.ON (n_of_int (int_of_string (Stdlib.String.sub tok 1 (Stdlib.String.length tok - 1))))
      else XReplace.OL (n_of_int (int_of_string (Stdlib.String.sub tok 1 (Stdlib.String.length tok - 1)))) in
    let ((n', l'), r') = XReplace.normalize (Stdlib.List.map opt (list_of seq)) in
    let sh = function None -> "-" | Some v -> string_of_int (int_of_n v) in
    Stdlib.Printf.sprintf "%s %s %d" (sh n') (sh l') (if r' then 1 else 0)
  | _ -> "badcase"

(* ---- walk mind maxd post prune(ids or ~; r = root) tree ----
   tree: L | G | B | D[id:tree,id:tree,...] ; events: E<id.id...>:<depth>:<0|1> / X<id.id...> (path from the root, "r" for the root) *)
let parse_tree (s : string) : Walk.node =
  let pos = ref 0 in
  let peek () = s.[!pos] in
  let adv () = incr pos in
  let rec node () =
    match peek () with
    | 'L' -> adv (); Walk.Leaf
    | 'G' -> adv (); Walk.Dang
    | 'B' -> adv (); Walk.Bad
    | 'D' -> adv (); adv ();   (* D[ *)
      let ch = ref [] in
      while peek () <> ']' do
        if peek () = ',' then adv ();
        let st = !pos in
        while peek () <> ':' do adv () done;
        let id = int_of_string (String.sub s st (!pos - st)) in
        adv ();
        let n = node () in
        ch := (nat_of_int id, n) :: !ch
      done;
      adv ();
      Walk.Dir (Stdlib.List.rev !ch)
    | _ -> failwith "tree" in
  node ()

let show_path rp = if rp = [] then "r" else String.concat "." (Stdlib.List.rev_map (fun i -> string_of_int (int_of_nat i)) rp)

let handle_walk words =
  match words with
  | [mind; maxd; post; prune; tree] ->
    let c = { Walk.mind = nat_of_int (int_of_string mind); maxd = nat_of_int (int_of_string maxd); post = (post = "1") } in
    let ps = list_of prune in
    let root_pruned = Stdlib.List.mem "r" ps in
    let ids = Stdlib.List.filter_map (fun x -> if x = "r" then None else Some (int_of_string x)) ps in
    let p rp _ = match rp with [] -> root_pruned | id :: _ -> Stdlib.List.mem (int_of_nat id) ids in
    let evs = Walk.walk c p (parse_tree tree) in
    if evs = [] then "~" else
    String.concat " " (Stdlib.List.map (function
        | Walk.Ent (rp, d, b) -> Stdlib.Printf.sprintf "E%s:%d:%d" (show_path rp) (int_of_nat d) (if b then 1 else 0)
        | Walk.Err rp -> "X" ^ show_path rp) evs)
  | _ -> "badcase"

(* ---- unfoldg <loopcheck 0|1> <xdev 0|1> <fuel> <root entry> <graph> ----
   entry: F | G | B | D<id>.<dev> ; graph: ';'-separated "<id>=<entry>,<entry>,..." ("<id>=!" cannot be read, "<id>=" empty)
   result: the shape of the tree the follow mode makes of the graph (L G B D[...]), or "nofuel" *)
let parse_gent (s : string) : WalkGraph.gent =
  match s.[0] with
  | 'F' -> WalkGraph.GFile | 'G' -> WalkGraph.GDang | 'B' -> WalkGraph.GBad
  | 'D' -> (match split_on '.' (String.sub s 1 (String.length s - 1)) with
            | [i; d] -> WalkGraph.GDir (nat_of_int (int_of_string i), nat_of_int (int_of_string d))
            | _ -> failwith "gent")
  | _ -> failwith "gent"

let rec shape (n : Walk.node) : string =
  match n with
  | Walk.Leaf -> "L" | Walk.Dang -> "G" | Walk.Bad -> "B"
  | Walk.Dir ch -> "D[" ^ String.concat "," (Stdlib.List.map (fun (_, x) -> shape x) ch) ^ "]"

let handle_unfoldg words =
  match words with
  | [lc; xd; fuel; root; g] ->
    let entry_list s = if s = "" then [] else Stdlib.List.mapi (fun i e -> (nat_of_int i, parse_gent e)) (split_on ',' s) in
    let graph = if g = "~" then [] else Stdlib.List.map (fun kv ->
        match split_on '=' kv with
        | [i; "!"] -> (nat_of_int (int_of_string i), None)
        | [i; l] -> (nat_of_int (int_of_string i), Some (entry_list l))
        | [i] -> (nat_of_int (int_of_string i), Some [])
        | _ -> failwith "graph") (split_on ';' g) in
    let r = parse_gent root in
    let rootdev = (match r with WalkGraph.GDir (_, d) -> d | _ -> O) in
    (match WalkGraph.unfold graph (lc = "1") (xd = "1") rootdev (nat_of_int (int_of_string fuel)) [] true r with
     | None -> "nofuel"
     | Some t -> shape (WalkGraph.erase t))
  | _ -> "badcase"

(* ---- expr mind maxd post tokens roots ----
   tokens: t<pid> a<pid> q<pid> r<pid> n A O C L R (comma separated, "~" = none)
   roots: ';'-separated "<tree>|<id=bits,...>" (bits.[pid] = truth of primary pid on that entry; id r = the root)
   result: "err" | "ok" then per root (separated by "|") the visits "<id>:<pid.pid...>" *)
let parse_tok (s : string) : Expr.tok =
  let prim k = { Expr.pid = nat_of_int (int_of_string (String.sub s 1 (String.length s - 1))); pk = k } in
  match s.[0] with
  | 't' -> Expr.TP (prim Expr.KTest) | 'a' -> Expr.TP (prim Expr.KAction)
  | 'q' -> Expr.TP (prim Expr.KQuit) | 'r' -> Expr.TP (prim Expr.KPrune)
  | 'n' -> Expr.TNot | 'A' -> Expr.TAnd | 'O' -> Expr.TOr | 'C' -> Expr.TComma
  | 'L' -> Expr.TL | 'R' -> Expr.TR | _ -> failwith "tok"

let handle_expr words =
  match words with
  | [mind; maxd; post; toks; roots] ->
    let c = { Walk.mind = nat_of_int (int_of_string mind); maxd = nat_of_int (int_of_string maxd); post = (post = "1") } in
    let ts = Stdlib.List.map parse_tok (list_of toks) in
    let mkroot r =
      match split_on '|' r with
      | [tree; truth] ->
        let tbl = Hashtbl.create 16 in
        Stdlib.List.iter (fun kv -> match split_on '=' kv with
            | [k; v] -> Hashtbl.replace tbl k v | _ -> failwith "truth") (list_of truth);
        let tvf rp pid =
          let key = match rp with [] -> "r" | id :: _ -> string_of_int (int_of_nat id) in
          match Hashtbl.find_opt tbl key with
          | Some bits -> let i = int_of_nat pid in i < String.length bits && bits.[i] = '1'
          | None -> false in
        (tvf, parse_tree tree)
      | _ -> failwith "root" in
    let rs = Stdlib.List.map mkroot (split_on ';' roots) in
    (match Find.find_main_model c ts rs with
     | Expr.Error -> "err"
     | Expr.Ok groups ->
       let show_visit (rp, tr) =
         (match rp with [] -> "r" | id :: _ -> string_of_int (int_of_nat id)) ^ ":" ^
         String.concat "." (Stdlib.List.map (fun i -> string_of_int (int_of_nat i)) tr) in
       "ok " ^ String.concat " | " (Stdlib.List.map (fun g -> String.concat " " (Stdlib.List.map show_visit g)) groups))
  | _ -> "badcase"

(* ---- numeric tests ---- *)
let big_n (s : string) : BinNums.coq_N =
  (* decimal string -> N, without going through OCaml ints (values up to 2^64 and beyond) *)
  let ten = n_of_int 10 in
  let r = ref BinNums.N0 in
  String.iter (fun ch -> r := BinNat.N.add (BinNat.N.mul !r ten) (n_of_int (Char.code ch - 48))) s; !r
let big_z (s : string) : BinNums.coq_Z =
  if s.[0] = '-' then BinInt.Z.opp (BinInt.Z.of_N (big_n (String.sub s 1 (String.length s - 1)))) else BinInt.Z.of_N (big_n s)
let show_ob = function None -> "reject" | Some true -> "1" | Some false -> "0"
let handle_num words =
  match words with
  | ["size"; op; v] -> show_ob (Numeric.size_test (bytes_of_hex op) (big_n v))
  | ["num"; op; v] -> show_ob (Numeric.num_test (bytes_of_hex op) (big_n v))
  | ["age"; period; op; now; ts] -> show_ob (Numeric.age_test (big_z period) (bytes_of_hex op) (big_z now) (big_z ts))
  | ["newer"; e; r] -> if Numeric.newer (big_z e) (big_z r) then "1" else "0"
  | ["perm"; k; pat; v] ->
    let c = match k with "exact" -> Numeric.Exact | "all" -> Numeric.AtLeast | _ -> Numeric.AnyOf in
    if Numeric.mode_bits_match c (big_n pat) (big_n v) then "1" else "0"
  | _ -> "badcase"

(* ---- glob ci pattern subjects : code points, dot-separated; subjects comma-separated; "-" = empty ---- *)
let cps s = if s = "-" then [] else Stdlib.List.map (fun x -> nat_of_int (int_of_string x)) (split_on '.' s)
let show_cps l = if l = [] then "-" else String.concat "." (Stdlib.List.map (fun c -> string_of_int (int_of_nat c)) l)
let handle_glob words =
  match words with
  | [ci; pat; subjects] ->
    let p = cps pat in
    let text = match Glob.glob_text p with
      | None -> "unsup" | Some None -> "never" | Some (Some t) -> show_cps t in
    let codes = Stdlib.List.map (fun s -> string_of_int (int_of_nat (Glob.glob_match (ci = "1") p (cps s)))) (list_of subjects) in
    text ^ " " ^ String.concat "" codes
  | _ -> "badcase"

(* rxwrap ext pattern(cps) -> inside_group text (cps) *)
let handle_rxwrap words =
  match words with
  | [ty; pat] ->
    (* extended groups; character classes; newline = alternation; grep brace; posix-basic \\+ \\? *)
    let (ext, cls, nl, gb, pq) = (match ty with
        | "emacs" -> (false, false, false, false, false) | "grep" -> (false, true, true, true, false)
        | "posix-extended" -> (true, true, false, false, false) | "posix-basic" | "ed" | "sed" -> (false, true, false, false, true)
        | _ -> failwith "regextype") in
    show_cps (RegexWrap.inside_group ext cls nl gb pq (cps pat))
  | _ -> "badcase"

(* rxrefs regextype pattern(cps) -> 1/0: the back-references all refer to complete groups *)
let handle_rxrefs words =
  match words with
  | [ty; pat] ->
    let (ext, nl, cls) = (match ty with
        | "emacs" -> (false, false, false) | "grep" -> (false, true, true)
        | "posix-extended" -> (true, false, true) | "posix-basic" | "ed" | "sed" -> (false, false, true)
        | _ -> failwith "regextype") in
    if RegexRefs.back_references_ok ext nl cls (cps pat) then "1" else "0"
  | _ -> "badcase"

(* rxclasses regextype pattern(cps) -> 1/0: the bracket expressions are closed and well-formed *)
let handle_rxclasses words =
  match words with
  | [ty; pat] ->
    let cls = (match ty with "emacs" -> false | "grep" | "posix-extended" | "posix-basic" | "ed" | "sed" -> true | _ -> failwith "regextype") in
    if RegexClasses.classes_ok cls (cps pat) then "1" else "0"
  | _ -> "badcase"

(* rxintervals regextype pattern(cps) -> 1/0 *)
let handle_rxintervals words =
  match words with
  | [ty; pat] ->
    let t = (match ty with "emacs" -> 0 | "grep" -> 1 | "posix-basic" | "ed" | "sed" -> 2 | "posix-extended" -> 3 | _ -> failwith "regextype") in
    if RegexIntervals.intervals_ok (nat_of_int t) (cps pat) then "1" else "0"
  | _ -> "badcase"

(* ---- paths ---- *)
let hexlist l = if l = [] then "~" else String.concat "," (Stdlib.List.map hex_of_bytes l)
let bl s = Stdlib.List.map bytes_of_hex (list_of s)
let handle_paths words =
  match words with
  | ["epath"; root; names] -> hex_of_bytes (Paths.entry_path (bytes_of_hex root) (bl names))
  | ["starts"; args] -> let (ps, e) = Paths.starting_points (bl args) in hexlist ps ^ " " ^ hexlist e
  | ["files0"; data] -> let (ns, diag) = Paths.files0_names (bytes_of_hex data) in hexlist ns ^ (if diag then " 1" else " 0")
  | ["exec"; execdir; exe; tmpls; path] ->
    let argv = ExecSingle.exec_argv (execdir = "1") (bytes_of_hex exe) (bl tmpls) (bytes_of_hex path) in
    let cwd = match ExecSingle.exec_cwd (execdir = "1") (bytes_of_hex path) with None -> "none" | Some c -> hex_of_bytes c in
    hexlist argv ^ " " ^ cwd
  | ["sort"; names] -> hexlist (Stdlib.List.map fst (SortOrder.sort_names (Stdlib.List.map (fun n -> (n, ())) (bl names))))
  | ["name_subject"; p] -> hex_of_bytes (Paths.name_subject (bytes_of_hex p))
  | ["parent"; p] -> (match PathModel.parent (bytes_of_hex p) with None -> "none" | Some x -> hex_of_bytes x)
  | ["file_name"; p] -> (match PathModel.file_name (bytes_of_hex p) with None -> "none" | Some x -> hex_of_bytes x)
  | ["join"; a; b] -> hex_of_bytes (PathModel.join (bytes_of_hex a) (bytes_of_hex b))
  | ["strip_prefix"; a; b] -> (match PathModel.strip_prefix (bytes_of_hex a) (bytes_of_hex b) with None -> "none" | Some x -> hex_of_bytes x)
  | _ -> "badcase"

(* ---- delete <matched ids (r = root) or ~> <tree: F | D[id:tree,...]> -> "<failed 0/1> <removed ids in order>" ---- *)
let parse_dtree (s : string) : Delete.node =
  let pos = ref 0 in
  let peek () = s.[!pos] in
  let adv () = incr pos in
  let rec node () =
    match peek () with
    | 'F' -> adv (); Delete.File
    | 'D' -> adv (); adv ();
      let ch = ref [] in
      while peek () <> ']' do
        if peek () = ',' then adv ();
        let st = !pos in
        while peek () <> ':' do adv () done;
        let id = int_of_string (String.sub s st (!pos - st)) in
        adv ();
        let n = node () in
        ch := (nat_of_int id, n) :: !ch
      done;
      adv ();
      Delete.Dir (Stdlib.List.rev !ch)
    | _ -> failwith "dtree" in
  node ()
let handle_delete words =
  match words with
  | [matched; tree] ->
    let ms = list_of matched in
    let root_m = Stdlib.List.mem "r" ms in
    let ids = Stdlib.List.filter_map (fun x -> if x = "r" then None else Some (int_of_string x)) ms in
    let m rp = match rp with [] -> root_m | id :: _ -> Stdlib.List.mem (int_of_nat id) ids in
    let r = Delete.delete_run m [] (parse_dtree tree) { Delete.removed = []; failed = false } in
    (if r.Delete.failed then "1" else "0") ^ " " ^
    (if r.Delete.removed = [] then "~" else String.concat "," (Stdlib.List.map (fun rp -> match rp with [] -> "r" | id :: _ -> string_of_int (int_of_nat id)) r.Delete.removed))
  | _ -> "badcase"

(* ---- execm execdir budget failing(invocation numbers, ~) entries(id:cost:single:parent|-:reached[:own],...)
        -> "<failed> <pending 0/1> <cwd|-:id.id...> ..." ---- *)
let handle_execm words =
  match words with
  | [execdir; budget; failing; entries] ->
    let fails = Stdlib.List.map int_of_string (list_of failing) in
    let ok i = not (Stdlib.List.mem (int_of_nat i) fails) in
    let es = Stdlib.List.map (fun e -> match split_on ':' e with
        | id :: cost :: single :: parent :: reached :: own ->
          { ExecMulti.eid = nat_of_int (int_of_string id); ecost = big_n cost; esingle = (single = "1");
            eparent = (if parent = "-" then None else Some (nat_of_int (int_of_string parent))); reached = (reached = "1");
            eown = (own = ["1"]) }
        | _ -> failwith "entry") (list_of entries) in
    let s = ExecMulti.run (execdir = "1") (big_n budget) ok es in
    let show (cwd, b) = (match cwd with None -> "-" | Some d -> string_of_int (int_of_nat d)) ^ ":" ^
                        String.concat "." (Stdlib.List.map (fun e -> string_of_int (int_of_nat e.ExecMulti.eid)) b) in
    String.concat " " ((if s.ExecMulti.failed then "1" else "0") :: (match s.ExecMulti.cmd with None -> "0" | Some _ -> "1") ::
                       Stdlib.List.map show s.ExecMulti.runs)
  | _ -> "badcase"
let show_n n = (* decimal of a binary natural, via OCaml ints where it fits *) string_of_int (int_of_n n)
let handle_limits words =
  match words with
  | ["find_budget"; argmax; env; prog; fixed] ->
    let envl = Stdlib.List.map (fun kv -> match split_on ':' kv with [k; v] -> (big_n k, big_n v) | _ -> failwith "env") (list_of env) in
    show_n (ExecLimits.find_budget (big_n argmax) envl (big_n prog) (Stdlib.List.map big_n (list_of fixed)))
  | ["argmax_budget"; argmax; env; prog; fixed] ->
    let envl = Stdlib.List.map (fun kv -> match split_on ':' kv with [k; v] -> (big_n k, big_n v) | _ -> failwith "env") (list_of env) in
    show_n (ExecLimits.argmax_budget (big_n argmax) envl (big_n prog) (Stdlib.List.map big_n (list_of fixed)))
  | "kernel" :: rl :: argc :: arglen :: envl :: fname :: more ->
    (* argc arguments of length arglen each; optionally what a "#!" line makes the kernel push *)
    let rec rep n x = if n = 0 then [] else x :: rep (n - 1) x in
    let sb = match more with [x] -> big_n x | _ -> big_n "0" in
    let c = { ExecLimits.argv = rep (int_of_string argc) (big_n arglen); envp = Stdlib.List.map big_n (list_of envl); fname = big_n fname; shebang = sb } in
    if ExecLimits.kernel_accepts_b (big_n rl) c then "1" else "0"
  | ["kernel_limit"; rl] -> show_n (ExecLimits.kernel_limit (big_n rl))
  | _ -> "badcase"

(* ---- entry cfg(P|H|L) depth lstat_type stat(ok:<type>|nf|err) -> "<seen> <xtype> <lname>" with seen/xtype in lstat|stat|none ---- *)
let handle_entry words =
  match words with
  | [cfg; depth; lt; st] ->
    let ty s = match s with "f" -> Entry.TReg | "d" -> Entry.TDir | "l" -> Entry.TLnk | "b" -> Entry.TBlk | "c" -> Entry.TChr
                            | "p" -> Entry.TFifo | _ -> Entry.TSock in
    let mk t ino = { Entry.st_type = ty t; st_mode = BinNums.N0; st_nlink = BinNums.N0; st_ino = n_of_int ino; st_uid = BinNums.N0;
                     st_gid = BinNums.N0; st_size = BinNums.N0; st_dev = BinNums.N0 } in
    let v = { Entry.v_lstat = mk lt 1;
              v_stat = (if st = "nf" then Entry.SNotFound else if st = "err" then Entry.SErr
                        else Entry.SOk (mk (String.sub st 3 1) 2)) } in
    let c = match cfg with "P" -> Entry.Never | "H" -> Entry.Roots | _ -> Entry.Always in
    let d = nat_of_int (int_of_string depth) in
    let show = function None -> "none" | Some r -> if int_of_n r.Entry.st_ino = 1 then "lstat" else "stat" in
    Stdlib.Printf.sprintf "%s %s %d" (show (Entry.seen c d v)) (show (Entry.seen_xtype c d v)) (if Entry.lname_applies c d v then 1 else 0)
  | _ -> "badcase"

(* ---- regex ci ast subjects : ast in prefix form, tokens separated by ','.
   C cat(2) A alt(2) S star(1) P plus(1) O opt(1) I<lo>.<hi> interval(1) c<n> char d any k<n.n..> class K<n.n..> negated class E eps ---- *)
let handle_regex words =
  match words with
  | [ci; ast; subjects] ->
    let ci = (ci = "1") in
    let fold c = if ci && c >= 65 && c <= 90 then c + 32 else c in
    let toks = ref (split_on ',' ast) in
    let next () = match !toks with t :: r -> toks := r; t | [] -> failwith "ast" in
    let ints s = Stdlib.List.map int_of_string (split_on '.' s) in
    let rec parse () =
      let t = next () in
      let arg = String.sub t 1 (String.length t - 1) in
      match t.[0] with
      | 'C' -> let a = parse () in let b = parse () in Regex.Cat (a, b)
      | 'A' -> let a = parse () in let b = parse () in Regex.Alt (a, b)
      | 'S' -> Regex.Star (parse ())
      | 'P' -> Regex.coq_Plus (parse ())
      | 'O' -> Regex.coq_Opt (parse ())
      | 'I' -> (match ints arg with [lo; hi] -> Regex.coq_Interval (nat_of_int lo) (nat_of_int hi) (parse ()) | _ -> failwith "interval")
      | 'c' -> let x = fold (int_of_string arg) in Regex.Chr (fun c -> fold (int_of_nat c) = x)
      | 'd' -> Regex.Chr (fun _ -> true)
      | 'k' -> let l = Stdlib.List.map fold (ints arg) in Regex.Chr (fun c -> Stdlib.List.mem (fold (int_of_nat c)) l)
      | 'K' -> let l = Stdlib.List.map fold (ints arg) in Regex.Chr (fun c -> not (Stdlib.List.mem (fold (int_of_nat c)) l))
      | 'E' -> Regex.Eps
      | _ -> failwith "ast" in
    let r = parse () in
    String.concat "" (Stdlib.List.map (fun s -> if Regex.matches r (cps s) then "1" else "0") (list_of subjects))
  | _ -> "badcase"

(* ---- printf <timeok letters cps|-> <fmt cps> <values: letter:cps;letter:cps...|~> -> "ok <cps>" | "err" ---- *)
let handle_printf words =
  match words with
  | [timeok; fmt; values] ->
    let tok = Stdlib.List.map int_of_nat (cps timeok) in
    let tbl = Stdlib.List.map (fun kv -> match split_on ':' kv with
        | [k; v] -> (int_of_string k, cps v) | [k] -> (int_of_string k, []) | _ -> failwith "value") (if values = "~" then [] else split_on ';' values) in
    let value d = match Stdlib.List.assoc_opt (int_of_nat d) tbl with Some v -> v | None -> [] in
    (match Printf.run_printf (fun c -> Stdlib.List.mem (int_of_nat c) tok) value (cps fmt) with
     | Printf.Ok out -> "ok " ^ show_cps out
     | Printf.Err -> "err")
  | _ -> "badcase"
let str_of_codes l = String.concat "" (Stdlib.List.map (fun c -> String.make 1 (Char.chr (int_of_nat c))) l)
let handle_pv words =
  match words with
  | ["num"; base; n] -> str_of_codes (PrintfValue.render_num (big_n base) (big_n n))
  | [path; depth] ->
    let p = bytes_of_hex path in
    let d = nat_of_int (int_of_string depth) in
    let o = function None -> "none" | Some x -> hex_of_bytes x in
    String.concat " " [hex_of_bytes (PrintfValue.pv_f p); hex_of_bytes (PrintfValue.pv_h p); o (PrintfValue.pv_H p d); o (PrintfValue.pv_P p d)]
  | _ -> "badcase"

(* ---- args <argv hex list> <oracle-valid pairs "name|op|op;..." hex, or ~> <newerxy names hex list or ~>
   operand validity: the modelled validators decide for numeric tests, -size, -type/-xtype, -printf/-fprintf, -regextype, -mindepth/-maxdepth;
   for the other primaries the pair must be listed in the oracle table ---- *)
let str_of_nats l = String.concat "" (Stdlib.List.map (fun c -> String.make 1 (Char.chr (int_of_nat c))) l)
let handle_args words =
  match words with
  | [argv; oracle; nxy] ->
    let argv = bl argv in
    let oracle_tbl = Hashtbl.create 64 in
    Stdlib.List.iter (fun e -> Hashtbl.replace oracle_tbl e true) (if oracle = "~" then [] else split_on ';' oracle);
    let nxy = Stdlib.List.map hex_of_bytes (bl nxy) in
    let numeric = ["-links"; "-inum"; "-uid"; "-gid"; "-mtime"; "-atime"; "-ctime"; "-mmin"; "-amin"; "-cmin"] in
    let utf8_decode (b : Datatypes.nat list) : Datatypes.nat list =
      (* bytes -> code points (the -printf model works on characters) *)
      let bs = Array.of_list (Stdlib.List.map int_of_nat b) in
      let n = Array.length bs in
      let out = ref [] in
      let i = ref 0 in
      while !i < n do
        let c = bs.(!i) in
        let (len, init) = if c < 0x80 then (1, c) else if c < 0xE0 then (2, c land 0x1F) else if c < 0xF0 then (3, c land 0x0F) else (4, c land 0x07) in
        let v = ref init in
        for k = 1 to len - 1 do if !i + k < n then v := (!v lsl 6) lor (bs.(!i + k) land 0x3F) done;
        out := nat_of_int !v :: !out; i := !i + len
      done; Stdlib.List.rev !out in
    let valid name ops =
      let nm = str_of_nats name in
      if ops = [] then true
      else if Stdlib.List.mem nm numeric then (match ops with [o] -> Numeric.parse_cv_plain o <> None | _ -> false)
      else if nm = "-size" then (match ops with [o] -> (match Numeric.parse_cv o with Some (_, suf) -> Numeric.unit_bits suf <> None | None -> false) | _ -> false)
      else if nm = "-type" || nm = "-xtype" then
        (match ops with [[c]] -> Stdlib.List.exists (fun (k, _) -> k = c) Tables.type_letters | _ -> false)
      else if nm = "-fprintf" then
        (match ops with
         | [file; f] ->
           Hashtbl.mem oracle_tbl (hex_of_bytes (bytes_of_hex "2d667072696e74") ^ "|" ^ hex_of_bytes file) &&
           (match Printf.parse (fun c -> Stdlib.List.mem (int_of_nat c) [72; 77; 89; 100; 109; 83; 84; 64]) (S (nat_of_int (Stdlib.List.length f))) (utf8_decode f) with Printf.Ok _ -> true | Printf.Err -> false)
         | _ -> false)
      else if nm = "-printf" then (match ops with [f] -> (match Printf.parse (fun c -> Stdlib.List.mem (int_of_nat c) [72; 77; 89; 100; 109; 83; 84; 64]) (S (nat_of_int (Stdlib.List.length f))) (utf8_decode f) with Printf.Ok _ -> true | Printf.Err -> false) | _ -> false)
      else if nm = "-mindepth" || nm = "-maxdepth" then
        (* decimal digits only (f625794: a leading '+' is no longer taken) *)
        (match ops with [o] -> let o' = o in
          o' <> [] && Stdlib.List.for_all (fun c -> let x = int_of_nat c in x >= 48 && x <= 57) o' && Stdlib.List.length o' <= 18 | _ -> false)
      else if nm = "-regextype" then (match ops with [o] -> Stdlib.List.mem (str_of_nats o) ["emacs"; "grep"; "posix-basic"; "posix-extended"; "ed"; "sed"] | _ -> false)
      else Hashtbl.mem oracle_tbl (String.concat "|" (hex_of_bytes name :: Stdlib.List.map hex_of_bytes ops)) in
    let newer_xy a = Stdlib.List.mem (hex_of_bytes a) nxy in
    (match Args.parse_argv valid newer_xy argv with
     | Expr.Ok _ -> "accept"
     | Expr.Error -> "reject")
  | _ -> "badcase"

let handlers : (string * (string list -> string)) list ref =
  ref [ ("xread", handle_xread); ("xargs", handle_xargs); ("xrepl", handle_xrepl); ("xnorm", handle_xnorm); ("walk", handle_walk); ("unfoldg", handle_unfoldg); ("expr", handle_expr); ("num", handle_num); ("glob", handle_glob); ("rxwrap", handle_rxwrap); ("rxrefs", handle_rxrefs); ("rxclasses", handle_rxclasses); ("rxintervals", handle_rxintervals); ("paths", handle_paths); ("delete", handle_delete); ("execm", handle_execm); ("limits", handle_limits); ("entry", handle_entry); ("regex", handle_regex); ("printf", handle_printf); ("pv", handle_pv); ("args", handle_args) ]

let () =
  try while true do
    let line = input_line stdin in
    let out = match split_on ' ' line with
      | [] -> "badcase"
      | k :: rest -> (match Stdlib.List.assoc_opt k !handlers with
                      | Some h -> (try h rest with e -> "exn " ^ Printexc.to_string e)
                      | None -> "badcase") in
    print_string out; print_char '\n'
  done with End_of_file -> ()
