(* Line-protocol driver around the extracted Coq models.
   One case per input line, first word selects the model, one result line per case. *)
open Datatypes

let nat_tab = Array.make 1200 O
let () = for i = 1 to 1199 do nat_tab.(i) <- S nat_tab.(i-1) done
let rec nat_of_int n = if n < 1200 then nat_tab.(n) else S (nat_of_int (n-1))
let int_of_nat n = let rec go acc = function O -> acc | S m -> go (acc+1) m in go 0 n

let hexval c = match c with
  | '0'..'9' -> Char.code c - 48 | 'a'..'f' -> Char.code c - 87 | 'A'..'F' -> Char.code c - 55
  | _ -> failwith "hex"
(* hex string -> list of bytes as nat *)
let bytes_of_hex s =
  let n = String.length s / 2 in
  let rec go i acc = if i < 0 then acc
    else go (i-1) (nat_of_int (hexval s.[2*i] * 16 + hexval s.[2*i+1]) :: acc) in
  if s = "-" then [] else go (n-1) []
let hex_of_bytes l =
  if l = [] then "-" else begin
    let b = Buffer.create 16 in
    Stdlib.List.iter (fun c -> Buffer.add_string b (Printf.sprintf "%02x" (int_of_nat c))) l;
    Buffer.contents b end
let split_on c s = if s = "" then [] else String.split_on_char c s
let chunks_of s = if s = "-" then [] else Stdlib.List.map bytes_of_hex (split_on ',' s)

let handle_xread words =
  match words with
  | ["ws"; cs] ->
    (match XRead.ws_read (chunks_of cs) with
     | XRead.Err -> "err"
     | XRead.Ok l -> String.concat " " ("ok" :: Stdlib.List.map (fun (t, h) -> hex_of_bytes t ^ (if h then ":1" else ":0")) l))
  | ["bd"; d; cs] ->
    let l = XRead.bd_read (nat_of_int (int_of_string d)) (chunks_of cs) in
    String.concat " " ("ok" :: Stdlib.List.map (fun t -> hex_of_bytes t ^ ":1") l)
  | _ -> "badcase"

let handlers : (string * (string list -> string)) list ref = ref [ ("xread", handle_xread) ]

let () =
  try while true do
    let line = input_line stdin in
    let out = match split_on ' ' line with
      | [] -> "badcase"
      | k :: rest -> (match Stdlib.List.assoc_opt k !handlers with
                      | Some h -> (try h rest with e -> "exn " ^ Printexc.to_string e)
                      | None -> "badcase") in
    print_string out; print_char '\n'
  done with End_of_file -> ()
