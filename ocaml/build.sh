#!/bin/sh
# extract the models and build the driver: ocaml/extracted/*.ml + driver.ml -> build/fuvm
set -e
here="$(cd "$(dirname "$0")" && pwd)"
out="$here/../build"
mkdir -p "$here/extracted" "$out"
cd "$here/extracted"
rm -f *.ml *.mli *.cm* *.o
coqc -R ../../coq FU ../../coq/Extract/Extract.v > /dev/null
cp ../driver.ml .
ocamlfind ocamlopt -O3 -w -a $(ocamlfind ocamldep -sort *.mli *.ml) -o "$out/fuvm" 2>/dev/null || \
ocamlfind ocamlopt -w -a $(ocamlfind ocamldep -sort *.mli *.ml) -o "$out/fuvm"
